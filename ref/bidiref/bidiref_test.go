package bidiref
import "testing"
func TestLevels(t *testing.T) {
	lv, pl := Levels([]rune("abc אבג 123 דהו"), -1)
	t.Log(lv, pl)
	lv, pl = Levels([]rune("אבג abc"), -1)
	t.Log(lv, pl)
}
