// Package bidiref exposes the UBA embedding levels computed by golang.org/x/text/unicode/bidi
// (a port of the Unicode reference implementation), whose public API only exposes parities.
// It binds to the unexported core through go:linkname; nothing in x/text or /repo is modified.
package bidiref

import (
	"unsafe"

	"golang.org/x/text/unicode/bidi"
)

//go:linkname newParagraph golang.org/x/text/unicode/bidi.newParagraph
func newParagraph(types []bidi.Class, pairTypes []uint8, pairValues []rune, levels int8) (unsafe.Pointer, error)

//go:linkname getLevels golang.org/x/text/unicode/bidi.(*paragraph).getLevels
func getLevels(p unsafe.Pointer, linebreaks []int) []int8

const (
	bpNone  = 0
	bpOpen  = 1
	bpClose = 2
)

// Levels returns the resolved embedding level of every rune of one paragraph (the text must
// not contain a class B character except as its last rune, which is excluded as x/text does).
// paraLevel is 0, 1 or -1 (auto: rules P2/P3).
func Levels(text []rune, paraLevel int8) (levels []int8, resolvedParaLevel int8) {
	var types []bidi.Class
	var pairTypes []uint8
	var pairValues []rune
	for _, r := range text {
		props, _ := bidi.LookupRune(r)
		cls := props.Class()
		if cls == bidi.B {
			break
		}
		types = append(types, cls)
		switch {
		case props.IsOpeningBracket():
			pairTypes = append(pairTypes, bpOpen)
			pairValues = append(pairValues, r)
		case props.IsBracket():
			pairTypes = append(pairTypes, bpClose)
			pairValues = append(pairValues, r)
		default:
			pairTypes = append(pairTypes, bpNone)
			pairValues = append(pairValues, 0)
		}
	}
	if len(types) == 0 {
		if paraLevel < 0 {
			paraLevel = 0
		}
		return nil, paraLevel
	}
	p, err := newParagraph(types, pairTypes, pairValues, paraLevel)
	if err != nil {
		return nil, -1
	}
	lv := getLevels(p, []int{len(types)})
	// the paragraph embedding level is the first field read back through the levels of
	// trailing whitespace (L1 resets them to the paragraph level); derive it independently:
	resolvedParaLevel = paraLevel
	if paraLevel < 0 {
		resolvedParaLevel = 0
		depth := 0
	loop:
		for _, t := range types {
			switch t {
			case bidi.LRI, bidi.RLI, bidi.FSI:
				depth++
			case bidi.PDI:
				if depth > 0 {
					depth--
				}
			case bidi.L:
				if depth == 0 {
					break loop
				}
			case bidi.R, bidi.AL:
				if depth == 0 {
					resolvedParaLevel = 1
					break loop
				}
			}
		}
	}
	return lv, resolvedParaLevel
}
