// Package uaxref is a declarative transcription of the UAX #14 line breaking rules (Unicode 15.0
// numbering, LB25 replaced by the Example 7 tailoring, LB13 tailored accordingly) and of the UAX #29
// grapheme cluster and word boundary rules, evaluated position by position with explicit look-behind
// and look-ahead over the whole string. It reads characters only through the library's class lookups
// ("applied to the library's character classes") and shares no state-machine idea with the segmenter.
package uaxref

import (
	"unicode"

	ucd "github.com/go-text/typesetting/unicodedata"
)

const (
	None      = 0
	Allowed   = 1
	Mandatory = 2
)

type tbl = *unicode.RangeTable

func in(c tbl, set ...tbl) bool {
	for _, s := range set {
		if c == s {
			return true
		}
	}
	return false
}

// lb1 resolves the line break class of a rune (rule LB1).
func lb1(r rune) tbl {
	c := ucd.LookupLineBreakClass(r)
	switch c {
	case ucd.BreakAI, ucd.BreakSG, ucd.BreakXX:
		return ucd.BreakAL
	case ucd.BreakSA:
		gc := ucd.LookupType(r)
		if gc == unicode.Mn || gc == unicode.Mc {
			return ucd.BreakCM
		}
		return ucd.BreakAL
	case ucd.BreakCJ:
		return ucd.BreakNS
	}
	return c
}

func largeEA(r rune) bool { return unicode.Is(ucd.LargeEastAsian, r) }

// Line returns, for every boundary 0..len(text), None / Allowed / Mandatory.
func Line(text []rune) []uint8 {
	out, _ := LineRules(text)
	return out
}

// LineRules also names, for every boundary, the rule that decided it.
func LineRules(text []rune) ([]uint8, []string) {
	n := len(text)
	out := make([]uint8, n+1)
	rules := make([]string, n+1)
	if n == 0 {
		return out, rules
	}
	out[n] = Mandatory // LB3
	R := make([]tbl, n)
	for i, r := range text {
		R[i] = lb1(r)
	}
	hard := func(c tbl) bool {
		return in(c, ucd.BreakBK, ucd.BreakCR, ucd.BreakLF, ucd.BreakNL, ucd.BreakSP, ucd.BreakZW)
	}
	// effective sequence after LB9 (attached CM/ZWJ removed) and LB10 (orphans become AL)
	effIdx := make([]int, 0, n) // index into text of each effective character
	effCls := make([]tbl, 0, n)
	posOf := make([]int, n) // effective position of the combining sequence holding text[i]
	for k := 0; k < n; k++ {
		if in(R[k], ucd.BreakCM, ucd.BreakZWJ) {
			if k > 0 && !hard(R[k-1]) {
				posOf[k] = len(effIdx) - 1 // attached
				continue
			}
			effIdx = append(effIdx, k)
			effCls = append(effCls, ucd.BreakAL)
			posOf[k] = len(effIdx) - 1
			continue
		}
		effIdx = append(effIdx, k)
		effCls = append(effCls, R[k])
		posOf[k] = len(effIdx) - 1
	}
	at := func(p int) tbl {
		if p < 0 || p >= len(effCls) {
			return nil
		}
		return effCls[p]
	}
	// beforeSpaces: effective class reached by skipping SP* backwards from p (inclusive)
	skipSP := func(p int) int {
		for p >= 0 && effCls[p] == ucd.BreakSP {
			p--
		}
		return p
	}
	numRun := func(p int) bool { // maximal run of NU|SY|IS ending at p contains a NU
		for ; p >= 0 && in(effCls[p], ucd.BreakNU, ucd.BreakSY, ucd.BreakIS); p-- {
			if effCls[p] == ucd.BreakNU {
				return true
			}
		}
		return false
	}
	for i := 1; i < n; i++ {
		out[i], rules[i] = lineAt(text, R, i, hard, posOf, effIdx, at, skipSP, numRun)
	}
	return out, rules
}

func lineAt(text []rune, R []tbl, i int, hard func(tbl) bool, posOf, effIdx []int,
	at func(int) tbl, skipSP func(int) int, numRun func(int) bool) (uint8, string) {
	p0, c0 := R[i-1], R[i]
	// LB4
	if p0 == ucd.BreakBK {
		return Mandatory, "LB4"
	}
	// LB5
	if p0 == ucd.BreakCR && c0 == ucd.BreakLF {
		return None, "LB5"
	}
	if in(p0, ucd.BreakCR, ucd.BreakLF, ucd.BreakNL) {
		return Mandatory, "LB5"
	}
	// LB6
	if in(c0, ucd.BreakBK, ucd.BreakCR, ucd.BreakLF, ucd.BreakNL) {
		return None, "LB6"
	}
	// LB7
	if in(c0, ucd.BreakSP, ucd.BreakZW) {
		return None, "LB7"
	}
	// LB8: ZW SP* ÷ (raw classes)
	{
		k := i - 1
		for k >= 0 && R[k] == ucd.BreakSP {
			k--
		}
		if k >= 0 && R[k] == ucd.BreakZW {
			return Allowed, "LB8"
		}
	}
	// LB8a: ZWJ ×
	if p0 == ucd.BreakZWJ {
		return None, "LB8a"
	}
	// LB9: do not break inside a combining sequence
	if in(c0, ucd.BreakCM, ucd.BreakZWJ) && !hard(p0) {
		return None, "LB9"
	}
	// from here on: effective sequence
	a := posOf[i-1]
	b := posOf[i]
	P, C := at(a), at(b)
	PP := at(a - 1)
	CC := at(b + 1)
	rP := text[effIdx[a]]
	rC := text[effIdx[b]]
	// LB11
	if C == ucd.BreakWJ || P == ucd.BreakWJ {
		return None, "LB11"
	}
	// LB12
	if P == ucd.BreakGL {
		return None, "LB12"
	}
	// LB12a
	if !in(P, ucd.BreakSP, ucd.BreakBA, ucd.BreakHY) && C == ucd.BreakGL {
		return None, "LB12a"
	}
	// LB13 (Example 7 tailoring)
	if C == ucd.BreakEX {
		return None, "LB13"
	}
	if P != ucd.BreakNU && in(C, ucd.BreakCL, ucd.BreakCP, ucd.BreakIS, ucd.BreakSY) {
		return None, "LB13"
	}
	// LB14..LB17 with SP*
	bs := at(skipSP(a))
	if bs == ucd.BreakOP {
		return None, "LB14"
	}
	if bs == ucd.BreakQU && C == ucd.BreakOP {
		return None, "LB14"
	}
	if in(bs, ucd.BreakCL, ucd.BreakCP) && C == ucd.BreakNS {
		return None, "LB14"
	}
	if bs == ucd.BreakB2 && C == ucd.BreakB2 {
		return None, "LB14"
	}
	// LB18
	if P == ucd.BreakSP {
		return Allowed, "LB18"
	}
	// LB19
	if C == ucd.BreakQU || P == ucd.BreakQU {
		return None, "LB19"
	}
	// LB20
	if C == ucd.BreakCB || P == ucd.BreakCB {
		return Allowed, "LB20"
	}
	// LB21
	if in(C, ucd.BreakBA, ucd.BreakHY, ucd.BreakNS) || P == ucd.BreakBB {
		return None, "LB21"
	}
	// LB21a
	if PP == ucd.BreakHL && in(P, ucd.BreakHY, ucd.BreakBA) {
		return None, "LB21a"
	}
	// LB21b
	if P == ucd.BreakSY && C == ucd.BreakHL {
		return None, "LB21b"
	}
	// LB22
	if C == ucd.BreakIN {
		return None, "LB22"
	}
	alhl := func(c tbl) bool { return in(c, ucd.BreakAL, ucd.BreakHL) }
	// LB23
	if alhl(P) && C == ucd.BreakNU || P == ucd.BreakNU && alhl(C) {
		return None, "LB23"
	}
	// LB23a
	if P == ucd.BreakPR && in(C, ucd.BreakID, ucd.BreakEB, ucd.BreakEM) {
		return None, "LB23a"
	}
	if in(P, ucd.BreakID, ucd.BreakEB, ucd.BreakEM) && C == ucd.BreakPO {
		return None, "LB23a"
	}
	// LB24
	if in(P, ucd.BreakPR, ucd.BreakPO) && alhl(C) || alhl(P) && in(C, ucd.BreakPR, ucd.BreakPO) {
		return None, "LB24"
	}
	// LB25 (Example 7)
	if in(P, ucd.BreakPR, ucd.BreakPO) && (C == ucd.BreakNU || in(C, ucd.BreakOP, ucd.BreakHY) && CC == ucd.BreakNU) {
		return None, "LB25"
	}
	if in(P, ucd.BreakOP, ucd.BreakHY) && C == ucd.BreakNU {
		return None, "LB25"
	}
	if P == ucd.BreakNU && in(C, ucd.BreakNU, ucd.BreakSY, ucd.BreakIS) {
		return None, "LB25"
	}
	if numRun(a) && in(C, ucd.BreakNU, ucd.BreakSY, ucd.BreakIS, ucd.BreakCL, ucd.BreakCP) {
		return None, "LB25"
	}
	if in(C, ucd.BreakPO, ucd.BreakPR) {
		if numRun(a) || in(P, ucd.BreakCL, ucd.BreakCP) && numRun(a-1) {
			return None, "LB25"
		}
	}
	// LB26
	if P == ucd.BreakJL && in(C, ucd.BreakJL, ucd.BreakJV, ucd.BreakH2, ucd.BreakH3) {
		return None, "LB26"
	}
	if in(P, ucd.BreakJV, ucd.BreakH2) && in(C, ucd.BreakJV, ucd.BreakJT) {
		return None, "LB26"
	}
	if in(P, ucd.BreakJT, ucd.BreakH3) && C == ucd.BreakJT {
		return None, "LB26"
	}
	// LB27
	hangul := func(c tbl) bool { return in(c, ucd.BreakJL, ucd.BreakJV, ucd.BreakJT, ucd.BreakH2, ucd.BreakH3) }
	if hangul(P) && C == ucd.BreakPO || P == ucd.BreakPR && hangul(C) {
		return None, "LB27"
	}
	// LB28
	if alhl(P) && alhl(C) {
		return None, "LB28"
	}
	// LB29
	if P == ucd.BreakIS && alhl(C) {
		return None, "LB29"
	}
	// LB30
	alhlnu := func(c tbl) bool { return in(c, ucd.BreakAL, ucd.BreakHL, ucd.BreakNU) }
	if alhlnu(P) && C == ucd.BreakOP && !largeEA(rC) {
		return None, "LB30"
	}
	if P == ucd.BreakCP && !largeEA(rP) && alhlnu(C) {
		return None, "LB30"
	}
	// LB30a
	if P == ucd.BreakRI && C == ucd.BreakRI {
		cnt := 0
		for k := a; k >= 0 && at(k) == ucd.BreakRI; k-- {
			cnt++
		}
		if cnt%2 == 1 {
			return None, "LB30a"
		}
	}
	// LB30b
	if P == ucd.BreakEB && C == ucd.BreakEM {
		return None, "LB30b"
	}
	if C == ucd.BreakEM && unicode.Is(ucd.Extended_Pictographic, rP) && ucd.LookupType(rP) == nil {
		return None, "LB30b"
	}
	// LB31
	return Allowed, "LB31"
}

// Grapheme returns for every boundary 0..len(text) whether it is a grapheme cluster boundary.
func Grapheme(text []rune) []bool {
	n := len(text)
	out := make([]bool, n+1)
	if n == 0 {
		return out
	}
	out[0], out[n] = true, true
	G := make([]tbl, n)
	for i, r := range text {
		G[i] = ucd.LookupGraphemeBreakClass(r)
	}
	ctl := func(c tbl) bool {
		return in(c, ucd.GraphemeBreakControl, ucd.GraphemeBreakCR, ucd.GraphemeBreakLF)
	}
	ep := func(r rune) bool { return unicode.Is(ucd.Extended_Pictographic, r) }
	for i := 1; i < n; i++ {
		a, b := G[i-1], G[i]
		switch {
		case a == ucd.GraphemeBreakCR && b == ucd.GraphemeBreakLF: // GB3
			out[i] = false
		case ctl(a) || ctl(b): // GB4 GB5
			out[i] = true
		case a == ucd.GraphemeBreakL && in(b, ucd.GraphemeBreakL, ucd.GraphemeBreakV, ucd.GraphemeBreakLV, ucd.GraphemeBreakLVT): // GB6
			out[i] = false
		case in(a, ucd.GraphemeBreakLV, ucd.GraphemeBreakV) && in(b, ucd.GraphemeBreakV, ucd.GraphemeBreakT): // GB7
			out[i] = false
		case in(a, ucd.GraphemeBreakLVT, ucd.GraphemeBreakT) && b == ucd.GraphemeBreakT: // GB8
			out[i] = false
		case in(b, ucd.GraphemeBreakExtend, ucd.GraphemeBreakZWJ): // GB9
			out[i] = false
		case b == ucd.GraphemeBreakSpacingMark: // GB9a
			out[i] = false
		case a == ucd.GraphemeBreakPrepend: // GB9b
			out[i] = false
		default:
			brk := true
			// GB11: ExtPict Extend* ZWJ × ExtPict
			if a == ucd.GraphemeBreakZWJ && ep(text[i]) {
				k := i - 2
				for k >= 0 && G[k] == ucd.GraphemeBreakExtend {
					k--
				}
				if k >= 0 && ep(text[k]) {
					brk = false
				}
			}
			// GB12 GB13
			if a == ucd.GraphemeBreakRegional_Indicator && b == ucd.GraphemeBreakRegional_Indicator {
				cnt := 0
				for k := i - 1; k >= 0 && G[k] == ucd.GraphemeBreakRegional_Indicator; k-- {
					cnt++
				}
				if cnt%2 == 1 {
					brk = false
				}
			}
			out[i] = brk
		}
	}
	return out
}

// Word returns for every boundary 0..len(text) whether it is a word boundary.
// The library merges Extend|Format|ZWJ into one class and Newline|CR|LF into another; ZWJ, CR, LF and
// the double quote are recognised by their code points.
func Word(text []rune) []bool {
	out, _ := WordRules(text)
	return out
}

// WordRules also names the rule deciding every boundary.
func WordRules(text []rune) ([]bool, []string) {
	n := len(text)
	out := make([]bool, n+1)
	rules := make([]string, n+1)
	if n == 0 {
		return out, rules
	}
	out[0], out[n] = true, true
	W := make([]tbl, n)
	for i, r := range text {
		W[i] = ucd.LookupWordBreakClass(r)
	}
	// ignored[k]: Extend|Format|ZWJ not after sot, CR, LF, Newline (WB4)
	ignored := make([]bool, n)
	for k := 1; k < n; k++ {
		if W[k] == ucd.WordBreakExtendFormat && W[k-1] != ucd.WordBreakNewlineCRLF {
			ignored[k] = true
		}
	}
	prevEff := func(k int) int { // last non ignored index <= k
		for k >= 0 && ignored[k] {
			k--
		}
		return k
	}
	nextEff := func(k int) int { // first non ignored index >= k
		for k < n && ignored[k] {
			k++
		}
		return k
	}
	cls := func(k int) tbl {
		if k < 0 || k >= n {
			return nil
		}
		return W[k]
	}
	ah := func(c tbl) bool { return in(c, ucd.WordBreakALetter, ucd.WordBreakHebrew_Letter) }
	midLetterQ := func(c tbl) bool {
		return in(c, ucd.WordBreakMidLetter, ucd.WordBreakMidNumLet, ucd.WordBreakSingle_Quote)
	}
	midNumQ := func(c tbl) bool {
		return in(c, ucd.WordBreakMidNum, ucd.WordBreakMidNumLet, ucd.WordBreakSingle_Quote)
	}
	for i := 1; i < n; i++ {
		switch {
		case text[i-1] == '\r' && text[i] == '\n': // WB3
			rules[i] = "WB3"
			out[i] = false
			continue
		case W[i-1] == ucd.WordBreakNewlineCRLF: // WB3a
			rules[i] = "WB3a"
			out[i] = true
			continue
		case W[i] == ucd.WordBreakNewlineCRLF: // WB3b
			rules[i] = "WB3b"
			out[i] = true
			continue
		case text[i-1] == 0x200D && unicode.Is(ucd.Extended_Pictographic, text[i]): // WB3c
			rules[i] = "WB3c"
			out[i] = false
			continue
		case W[i-1] == ucd.WordBreakWSegSpace && W[i] == ucd.WordBreakWSegSpace: // WB3d
			rules[i] = "WB3d"
			out[i] = false
			continue
		case W[i] == ucd.WordBreakExtendFormat: // WB4
			rules[i] = "WB4"
			out[i] = false
			continue
		}
		l := prevEff(i - 1)
		ll := prevEff(l - 1)
		rr := nextEff(i + 1)
		L, LL, R, RR := cls(l), cls(ll), W[i], cls(rr)
		brk := true
		switch {
		case ah(L) && ah(R): // WB5
			rules[i] = "WB5"
			brk = false
		case ah(L) && midLetterQ(R) && ah(RR): // WB6
			rules[i] = "WB6"
			brk = false
		case ah(LL) && midLetterQ(L) && ah(R): // WB7
			rules[i] = "WB7"
			brk = false
		case L == ucd.WordBreakHebrew_Letter && R == ucd.WordBreakSingle_Quote: // WB7a
			rules[i] = "WB7a"
			brk = false
		case L == ucd.WordBreakHebrew_Letter && R == ucd.WordBreakDouble_Quote && RR == ucd.WordBreakHebrew_Letter: // WB7b
			rules[i] = "WB7b"
			brk = false
		case LL == ucd.WordBreakHebrew_Letter && L == ucd.WordBreakDouble_Quote && R == ucd.WordBreakHebrew_Letter: // WB7c
			rules[i] = "WB7c"
			brk = false
		case L == ucd.WordBreakNumeric && R == ucd.WordBreakNumeric: // WB8
			rules[i] = "WB8"
			brk = false
		case ah(L) && R == ucd.WordBreakNumeric: // WB9
			rules[i] = "WB9"
			brk = false
		case L == ucd.WordBreakNumeric && ah(R): // WB10
			rules[i] = "WB10"
			brk = false
		case LL == ucd.WordBreakNumeric && midNumQ(L) && R == ucd.WordBreakNumeric: // WB11
			rules[i] = "WB11"
			brk = false
		case L == ucd.WordBreakNumeric && midNumQ(R) && RR == ucd.WordBreakNumeric: // WB12
			rules[i] = "WB12"
			brk = false
		case L == ucd.WordBreakKatakana && R == ucd.WordBreakKatakana: // WB13
			rules[i] = "WB13"
			brk = false
		case in(L, ucd.WordBreakALetter, ucd.WordBreakHebrew_Letter, ucd.WordBreakNumeric, ucd.WordBreakKatakana, ucd.WordBreakExtendNumLet) && R == ucd.WordBreakExtendNumLet: // WB13a
			rules[i] = "WB13a"
			brk = false
		case L == ucd.WordBreakExtendNumLet && in(R, ucd.WordBreakALetter, ucd.WordBreakHebrew_Letter, ucd.WordBreakNumeric, ucd.WordBreakKatakana): // WB13b
			rules[i] = "WB13b"
			brk = false
		case L == ucd.WordBreakRegional_Indicator && R == ucd.WordBreakRegional_Indicator: // WB15 WB16
			rules[i] = "WB15"
			cnt := 0
			for k := l; k >= 0 && W[k] == ucd.WordBreakRegional_Indicator; k = prevEff(k - 1) {
				cnt++
			}
			if cnt%2 == 1 {
				brk = false
			}
		}
		if rules[i] == "" {
			rules[i] = "WB999"
		}
		out[i] = brk
	}
	return out, rules
}
