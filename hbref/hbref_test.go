package hbref
import ("testing"; "verif/corpus")
func TestHB(t *testing.T) {
	t.Log(Version())
	f := corpus.Get("ot/morx/Ten.ttf")
	hf := NewFont(f.Data, 0)
	t.Log(hf.Upem, hf.NumGlyphs)
	for lv := 0; lv < 3; lv++ {
	  t.Log(lv, hf.Shape([]rune{' ', 0x200D}, 0, 2, 5, 0x5a797979, "", 0, lv, nil))
	}
}
