// Package hbref binds the system libharfbuzz (6.0.0, no headers in the image) through cgo with
// hand-written prototypes. It is only imported by the hb-dependent checks (separate binary).
package hbref

/*
#cgo LDFLAGS: -l:libharfbuzz.so.0
#include <stdint.h>
#include <stdlib.h>

typedef struct hb_blob_t hb_blob_t;
typedef struct hb_face_t hb_face_t;
typedef struct hb_font_t hb_font_t;
typedef struct hb_buffer_t hb_buffer_t;
typedef uint32_t hb_codepoint_t;
typedef int32_t hb_position_t;
typedef uint32_t hb_tag_t;
typedef int hb_bool_t;
typedef const struct hb_language_impl_t *hb_language_t;

typedef struct { hb_tag_t tag; uint32_t value; unsigned int start; unsigned int end; } hb_feature_t;
typedef struct { hb_tag_t tag; float value; } hb_variation_t;
typedef struct { hb_codepoint_t codepoint; uint32_t mask; uint32_t cluster; uint32_t var1; uint32_t var2; } hb_glyph_info_t;
typedef struct { hb_position_t x_advance; hb_position_t y_advance; hb_position_t x_offset; hb_position_t y_offset; uint32_t var; } hb_glyph_position_t;
typedef struct { hb_position_t x_bearing; hb_position_t y_bearing; hb_position_t width; hb_position_t height; } hb_glyph_extents_t;

extern const char *hb_version_string(void);
extern hb_blob_t *hb_blob_create(const char *data, unsigned int length, int mode, void *user_data, void *destroy);
extern void hb_blob_destroy(hb_blob_t *blob);
extern hb_face_t *hb_face_create(hb_blob_t *blob, unsigned int index);
extern void hb_face_destroy(hb_face_t *face);
extern unsigned int hb_face_get_upem(hb_face_t *face);
extern unsigned int hb_face_get_glyph_count(hb_face_t *face);
extern hb_font_t *hb_font_create(hb_face_t *face);
extern void hb_font_destroy(hb_font_t *font);
extern void hb_font_set_scale(hb_font_t *font, int x_scale, int y_scale);
extern void hb_font_set_ppem(hb_font_t *font, unsigned int x, unsigned int y);
extern void hb_font_set_variations(hb_font_t *font, const hb_variation_t *variations, unsigned int n);
extern void hb_font_set_var_coords_design(hb_font_t *font, const float *coords, unsigned int n);
extern const int *hb_font_get_var_coords_normalized(hb_font_t *font, unsigned int *length);
extern hb_bool_t hb_font_get_nominal_glyph(hb_font_t *font, hb_codepoint_t unicode, hb_codepoint_t *glyph);
extern hb_position_t hb_font_get_glyph_h_advance(hb_font_t *font, hb_codepoint_t glyph);
extern hb_position_t hb_font_get_glyph_v_advance(hb_font_t *font, hb_codepoint_t glyph);
extern hb_bool_t hb_font_get_glyph_extents(hb_font_t *font, hb_codepoint_t glyph, hb_glyph_extents_t *extents);
extern hb_buffer_t *hb_buffer_create(void);
extern void hb_buffer_destroy(hb_buffer_t *buffer);
extern void hb_buffer_clear_contents(hb_buffer_t *buffer);
extern void hb_buffer_add_codepoints(hb_buffer_t *buffer, const hb_codepoint_t *text, int text_length, unsigned int item_offset, int item_length);
extern void hb_buffer_set_direction(hb_buffer_t *buffer, int direction);
extern void hb_buffer_set_script(hb_buffer_t *buffer, uint32_t script);
extern void hb_buffer_set_language(hb_buffer_t *buffer, hb_language_t language);
extern hb_language_t hb_language_from_string(const char *str, int len);
extern void hb_buffer_set_flags(hb_buffer_t *buffer, int flags);
extern void hb_buffer_set_cluster_level(hb_buffer_t *buffer, int level);
extern void hb_shape(hb_font_t *font, hb_buffer_t *buffer, const hb_feature_t *features, unsigned int num_features);
extern unsigned int hb_buffer_get_length(hb_buffer_t *buffer);
extern hb_glyph_info_t *hb_buffer_get_glyph_infos(hb_buffer_t *buffer, unsigned int *length);
extern hb_glyph_position_t *hb_buffer_get_glyph_positions(hb_buffer_t *buffer, unsigned int *length);

typedef struct hb_draw_funcs_t hb_draw_funcs_t;
typedef struct hb_draw_state_t hb_draw_state_t;
extern hb_draw_funcs_t *hb_draw_funcs_create(void);
extern void hb_draw_funcs_set_move_to_func(hb_draw_funcs_t *d, void *func, void *user_data, void *destroy);
extern void hb_draw_funcs_set_line_to_func(hb_draw_funcs_t *d, void *func, void *user_data, void *destroy);
extern void hb_draw_funcs_set_quadratic_to_func(hb_draw_funcs_t *d, void *func, void *user_data, void *destroy);
extern void hb_draw_funcs_set_cubic_to_func(hb_draw_funcs_t *d, void *func, void *user_data, void *destroy);
extern void hb_draw_funcs_set_close_path_func(hb_draw_funcs_t *d, void *func, void *user_data, void *destroy);
extern void hb_font_get_glyph_shape(hb_font_t *font, hb_codepoint_t glyph, hb_draw_funcs_t *dfuncs, void *draw_data);

// recorder for the draw callbacks: op codes 0 move, 1 line, 2 quad, 3 cubic, 4 close; six floats per op
typedef struct { int n, cap; int *ops; float *args; } vf_path_t;
static void vf_push(vf_path_t *p, int op, float a, float b, float c, float d, float e, float f) {
	if (p->n == p->cap) {
		p->cap = p->cap ? p->cap * 2 : 64;
		p->ops = realloc(p->ops, sizeof(int) * p->cap);
		p->args = realloc(p->args, sizeof(float) * 6 * p->cap);
	}
	p->ops[p->n] = op;
	float *q = p->args + 6 * p->n;
	q[0] = a; q[1] = b; q[2] = c; q[3] = d; q[4] = e; q[5] = f;
	p->n++;
}
static void vf_move(hb_draw_funcs_t *d, void *data, hb_draw_state_t *st, float x, float y, void *u) { vf_push(data, 0, x, y, 0, 0, 0, 0); }
static void vf_line(hb_draw_funcs_t *d, void *data, hb_draw_state_t *st, float x, float y, void *u) { vf_push(data, 1, x, y, 0, 0, 0, 0); }
static void vf_quad(hb_draw_funcs_t *d, void *data, hb_draw_state_t *st, float cx, float cy, float x, float y, void *u) { vf_push(data, 2, cx, cy, x, y, 0, 0); }
static void vf_cubic(hb_draw_funcs_t *d, void *data, hb_draw_state_t *st, float c1x, float c1y, float c2x, float c2y, float x, float y, void *u) { vf_push(data, 3, c1x, c1y, c2x, c2y, x, y); }
static void vf_close(hb_draw_funcs_t *d, void *data, hb_draw_state_t *st, void *u) { vf_push(data, 4, 0, 0, 0, 0, 0, 0); }
static hb_draw_funcs_t *vf_funcs(void) {
	static hb_draw_funcs_t *d;
	if (!d) {
		d = hb_draw_funcs_create();
		hb_draw_funcs_set_move_to_func(d, vf_move, 0, 0);
		hb_draw_funcs_set_line_to_func(d, vf_line, 0, 0);
		hb_draw_funcs_set_quadratic_to_func(d, vf_quad, 0, 0);
		hb_draw_funcs_set_cubic_to_func(d, vf_cubic, 0, 0);
		hb_draw_funcs_set_close_path_func(d, vf_close, 0, 0);
	}
	return d;
}
static void vf_draw(hb_font_t *font, hb_codepoint_t g, vf_path_t *p) { p->n = 0; hb_font_get_glyph_shape(font, g, vf_funcs(), p); }
*/
import "C"

import (
	"runtime"
	"unsafe"
)

func Version() string { return C.GoString(C.hb_version_string()) }

// Font is a libharfbuzz font over a copy of the file bytes kept in C memory.
type Font struct {
	data      unsafe.Pointer
	blob      *C.hb_blob_t
	face      *C.hb_face_t
	font      *C.hb_font_t
	buf       *C.hb_buffer_t
	path      C.vf_path_t
	Upem      int
	NumGlyphs int
}

func NewFont(file []byte, index int) *Font {
	f := &Font{}
	f.data = C.CBytes(file)
	f.blob = C.hb_blob_create((*C.char)(f.data), C.uint(len(file)), 1 /*READONLY*/, nil, nil)
	f.face = C.hb_face_create(f.blob, C.uint(index))
	f.font = C.hb_font_create(f.face)
	f.buf = C.hb_buffer_create()
	f.Upem = int(C.hb_face_get_upem(f.face))
	f.NumGlyphs = int(C.hb_face_get_glyph_count(f.face))
	runtime.SetFinalizer(f, (*Font).Close)
	return f
}

func (f *Font) Close() {
	if f.data == nil {
		return
	}
	C.hb_buffer_destroy(f.buf)
	C.hb_font_destroy(f.font)
	C.hb_face_destroy(f.face)
	C.hb_blob_destroy(f.blob)
	C.free(unsafe.Pointer(f.path.ops))
	C.free(unsafe.Pointer(f.path.args))
	C.free(f.data)
	f.data = nil
}

func (f *Font) SetScale(x, y int) { C.hb_font_set_scale(f.font, C.int(x), C.int(y)) }
func (f *Font) SetPpem(x, y int)  { C.hb_font_set_ppem(f.font, C.uint(x), C.uint(y)) }

type Variation struct {
	Tag   uint32
	Value float32
}

func (f *Font) SetVariations(vs []Variation) {
	if len(vs) == 0 {
		C.hb_font_set_variations(f.font, nil, 0)
		return
	}
	cv := make([]C.hb_variation_t, len(vs))
	for i, v := range vs {
		cv[i].tag = C.hb_tag_t(v.Tag)
		cv[i].value = C.float(v.Value)
	}
	C.hb_font_set_variations(f.font, &cv[0], C.uint(len(cv)))
}

func (f *Font) SetDesignCoords(coords []float32) {
	if len(coords) == 0 {
		C.hb_font_set_var_coords_design(f.font, nil, 0)
		return
	}
	C.hb_font_set_var_coords_design(f.font, (*C.float)(unsafe.Pointer(&coords[0])), C.uint(len(coords)))
}

func (f *Font) NormalizedCoords() []int {
	var n C.uint
	p := C.hb_font_get_var_coords_normalized(f.font, &n)
	if p == nil || n == 0 {
		return nil
	}
	s := unsafe.Slice((*C.int)(unsafe.Pointer(p)), int(n))
	out := make([]int, n)
	for i, v := range s {
		out[i] = int(v)
	}
	return out
}

func (f *Font) NominalGlyph(r rune) (uint32, bool) {
	var g C.hb_codepoint_t
	ok := C.hb_font_get_nominal_glyph(f.font, C.hb_codepoint_t(r), &g)
	return uint32(g), ok != 0
}

func (f *Font) HAdvance(g uint32) int {
	return int(C.hb_font_get_glyph_h_advance(f.font, C.hb_codepoint_t(g)))
}
func (f *Font) VAdvance(g uint32) int {
	return int(C.hb_font_get_glyph_v_advance(f.font, C.hb_codepoint_t(g)))
}

type Extents struct{ XBearing, YBearing, Width, Height int }

func (f *Font) GlyphExtents(g uint32) (Extents, bool) {
	var e C.hb_glyph_extents_t
	ok := C.hb_font_get_glyph_extents(f.font, C.hb_codepoint_t(g), &e)
	return Extents{int(e.x_bearing), int(e.y_bearing), int(e.width), int(e.height)}, ok != 0
}

type Feature struct {
	Tag        uint32
	Value      uint32
	Start, End uint32
}

type Glyph struct {
	ID, Cluster, Mask                    uint32
	XAdvance, YAdvance, XOffset, YOffset int
}

// Shape shapes text[start:start+n] with context. direction: 4 LTR, 5 RTL, 6 TTB, 7 BTT.
func (f *Font) Shape(text []rune, start, n int, direction int, script uint32, lang string, flags, level int, feats []Feature) []Glyph {
	b := f.buf
	C.hb_buffer_clear_contents(b)
	if len(text) > 0 {
		C.hb_buffer_add_codepoints(b, (*C.hb_codepoint_t)(unsafe.Pointer(&text[0])), C.int(len(text)), C.uint(start), C.int(n))
	}
	C.hb_buffer_set_direction(b, C.int(direction))
	C.hb_buffer_set_script(b, C.uint32_t(script))
	if lang != "" {
		cs := C.CString(lang)
		C.hb_buffer_set_language(b, C.hb_language_from_string(cs, -1))
		C.free(unsafe.Pointer(cs))
	} else {
		C.hb_buffer_set_language(b, nil)
	}
	C.hb_buffer_set_flags(b, C.int(flags))
	C.hb_buffer_set_cluster_level(b, C.int(level))
	var fp *C.hb_feature_t
	var cf []C.hb_feature_t
	if len(feats) > 0 {
		cf = make([]C.hb_feature_t, len(feats))
		for i, x := range feats {
			cf[i].tag, cf[i].value, cf[i].start, cf[i].end = C.hb_tag_t(x.Tag), C.uint32_t(x.Value), C.uint(x.Start), C.uint(x.End)
		}
		fp = &cf[0]
	}
	C.hb_shape(f.font, b, fp, C.uint(len(cf)))
	var ln C.uint
	infos := C.hb_buffer_get_glyph_infos(b, &ln)
	pos := C.hb_buffer_get_glyph_positions(b, &ln)
	if ln == 0 {
		return nil
	}
	is := unsafe.Slice(infos, int(ln))
	ps := unsafe.Slice(pos, int(ln))
	out := make([]Glyph, ln)
	for i := range out {
		out[i] = Glyph{uint32(is[i].codepoint), uint32(is[i].cluster), uint32(is[i].mask),
			int(ps[i].x_advance), int(ps[i].y_advance), int(ps[i].x_offset), int(ps[i].y_offset)}
	}
	return out
}

// PathOp is one draw callback of hb_font_get_glyph_shape: Op 0 move, 1 line, 2 quadratic, 3 cubic, 4 close.
type PathOp struct {
	Op   int
	Args [6]float32
}

// Draw records the draw callbacks for a glyph at the current scale and variation settings.
// Must not be called concurrently (shared recorder per Font).
func (f *Font) Draw(g uint32) []PathOp {
	C.vf_draw(f.font, C.hb_codepoint_t(g), &f.path)
	n := int(f.path.n)
	if n == 0 {
		return nil
	}
	ops := unsafe.Slice(f.path.ops, n)
	args := unsafe.Slice(f.path.args, 6*n)
	out := make([]PathOp, n)
	for i := range out {
		out[i].Op = int(ops[i])
		for k := 0; k < 6; k++ {
			out[i].Args[k] = float32(args[6*i+k])
		}
	}
	return out
}
