package mc

import (
	"hash/maphash"
	"math"
	"reflect"
	"sort"
	"unsafe"
)

// DeepHasher hashes everything reachable from a value: unexported fields, pointers (with cycle
// detection), the whole capacity of slices (scratch contents left behind a [:0] are state),
// maps (order independent), interfaces (dynamic type + value), function and channel identities.
// It is the state observation of the write monitor: two hashes differ iff some reachable bit
// changed (up to hash collisions).
type DeepHasher struct {
	acc   uint64
	seen  map[unsafe.Pointer]uint32
	Nodes int
	// SkipType, when set, tells types whose content is not hashed (e.g. sync.Once)
	SkipType func(t reflect.Type) bool
}

func NewDeepHasher() *DeepHasher {
	return &DeepHasher{acc: 0xcbf29ce484222325, seen: map[unsafe.Pointer]uint32{}}
}

var deepSeed = maphash.MakeSeed()

func (d *DeepHasher) u64(x uint64) {
	d.acc = (d.acc ^ x) * 0x100000001b3
	d.acc ^= d.acc >> 29
}

func (d *DeepHasher) bytes(b []byte) {
	d.u64(uint64(len(b)))
	if len(b) > 0 {
		d.u64(maphash.Bytes(deepSeed, b))
	}
}

// Sum hashes root (pass a pointer to hash a variable) and returns the digest so far.
func (d *DeepHasher) Sum(root any) uint64 {
	d.value(reflect.ValueOf(root))
	return d.acc
}

func DeepHash(root any) uint64 { return NewDeepHasher().Sum(root) }

func (d *DeepHasher) value(v reflect.Value) {
	d.Nodes++
	if !v.IsValid() {
		d.u64(0xDEAD)
		return
	}
	if d.SkipType != nil && d.SkipType(v.Type()) {
		return
	}
	switch v.Kind() {
	case reflect.Bool:
		if v.Bool() {
			d.u64(1)
		} else {
			d.u64(2)
		}
	case reflect.Int, reflect.Int8, reflect.Int16, reflect.Int32, reflect.Int64:
		d.u64(uint64(v.Int()))
	case reflect.Uint, reflect.Uint8, reflect.Uint16, reflect.Uint32, reflect.Uint64, reflect.Uintptr:
		d.u64(v.Uint())
	case reflect.Float32, reflect.Float64:
		d.u64(math.Float64bits(v.Float()))
	case reflect.Complex64, reflect.Complex128:
		c := v.Complex()
		d.u64(math.Float64bits(real(c)))
		d.u64(math.Float64bits(imag(c)))
	case reflect.String:
		d.u64(uint64(v.Len()))
		d.u64(maphash.String(deepSeed, v.String()))
	case reflect.Pointer:
		if v.IsNil() {
			d.u64(0)
			return
		}
		p := v.UnsafePointer()
		if id, ok := d.seen[p]; ok && v.Elem().Type().Size() > 0 {
			_ = id
			d.u64(0xC0DE) // revisited: a constant, so that the digest does not depend on the visiting order
			return
		}
		d.seen[p] = uint32(len(d.seen) + 1)
		d.u64(0xB0)
		d.value(v.Elem())
	case reflect.Interface:
		if v.IsNil() {
			d.u64(0)
			return
		}
		e := v.Elem()
		d.u64(uint64(uintptr(unsafe.Pointer(reflect.ValueOf(e.Type()).Pointer()))))
		d.value(e)
	case reflect.Slice:
		if v.IsNil() {
			d.u64(0)
			return
		}
		d.u64(uint64(v.Len())<<1 | 1)
		n := v.Cap()
		if n == 0 {
			return
		}
		p := v.UnsafePointer()
		if id, ok := d.seen[p]; ok && v.Type().Elem().Size() > 0 {
			_ = id
			d.u64(0x511CE)
			return
		}
		d.seen[p] = uint32(len(d.seen) + 1)
		full := v.Slice(0, n)
		// fast paths for scalar elements
		switch v.Type().Elem().Kind() {
		case reflect.Uint8:
			d.bytes(unsafe.Slice((*byte)(p), n))
			return
		case reflect.Int8, reflect.Int16, reflect.Uint16, reflect.Int32, reflect.Uint32, reflect.Int64, reflect.Uint64, reflect.Int, reflect.Uint, reflect.Float32, reflect.Float64, reflect.Bool:
			d.bytes(unsafe.Slice((*byte)(p), n*int(v.Type().Elem().Size())))
			return
		}
		for i := 0; i < n; i++ {
			d.value(full.Index(i))
		}
	case reflect.Array:
		for i := 0; i < v.Len(); i++ {
			d.value(v.Index(i))
		}
	case reflect.Struct:
		for i := 0; i < v.NumField(); i++ {
			d.value(v.Field(i))
		}
	case reflect.Map:
		if v.IsNil() {
			d.u64(0)
			return
		}
		d.u64(uint64(v.Len())<<1 | 1)
		// order independent: hash every (key, value) with a private hasher sharing the seen set, sort the digests
		var sums []uint64
		it := v.MapRange()
		for it.Next() {
			sub := &DeepHasher{acc: 0xcbf29ce484222325, seen: d.seen, SkipType: d.SkipType}
			if typeHasPointers(v.Type().Key()) || typeHasPointers(v.Type().Elem()) {
				// every entry is expanded on its own: map iteration order must not decide which entry sees a shared pointer first
				sub.seen = make(map[unsafe.Pointer]uint32, len(d.seen))
				for k, x := range d.seen {
					sub.seen[k] = x
				}
			}
			sub.value(it.Key())
			sub.value(it.Value())
			d.Nodes += sub.Nodes
			sums = append(sums, sub.acc)
		}
		sort.Slice(sums, func(i, j int) bool { return sums[i] < sums[j] })
		for _, s := range sums {
			d.u64(s)
		}
	case reflect.Func, reflect.Chan, reflect.UnsafePointer:
		if v.IsNil() {
			d.u64(0)
			return
		}
		d.u64(uint64(uintptr(v.UnsafePointer())))
	default:
		d.u64(0xBAD)
	}
}

var pointerTypes = map[reflect.Type]bool{}

func typeHasPointers(t reflect.Type) bool {
	if r, ok := pointerTypes[t]; ok {
		return r
	}
	pointerTypes[t] = false // recursion guard
	r := false
	switch t.Kind() {
	case reflect.Pointer, reflect.Interface, reflect.Slice, reflect.Map, reflect.Func, reflect.Chan, reflect.UnsafePointer:
		r = true
	case reflect.Array:
		r = typeHasPointers(t.Elem())
	case reflect.Struct:
		for i := 0; i < t.NumField(); i++ {
			if typeHasPointers(t.Field(i).Type) {
				r = true
				break
			}
		}
	}
	pointerTypes[t] = r
	return r
}
