// Package mc is the shared plumbing of the bounded-exhaustive checks:
// sharded enumeration over journalled worker processes, outcome counting,
// violation de-duplication, known-finding matching, evidence and replay files.
package mc

import (
	"bufio"
	"bytes"
	"crypto/sha256"
	"encoding/hex"
	"encoding/json"
	"fmt"
	"hash/fnv"
	"os"
	"os/exec"
	"path/filepath"
	"runtime"
	"runtime/debug"
	"runtime/pprof"
	"sort"
	"strconv"
	"strings"
	"sync"
	"sync/atomic"
	"syscall"
	"time"
)

const Root = "/verif"

// outRoot: where replays and evidence are written; /verif, except for triage runs against another tree (tools/runalt.sh)
func outRoot() string {
	if d := os.Getenv("VERIF_OUT_DIR"); d != "" {
		return d
	}
	return Root
}

// Check describes one property check.
type Check struct {
	ID          string
	Level       string // exploration | fault_enumeration | model_checking
	Rule        string
	Assumptions []string
	// Shards lists the independent pieces of the enumeration for a tier, in
	// simplest-first order.
	Shards func(tier string) []string
	// Run enumerates one shard in a worker process.
	Run func(tier, shard string, r *Reporter)
	// Replay re-runs the case stored in a replay file.
	Replay func(c json.RawMessage, r *Reporter)
	// Deadline is the internal deadline per tier (enumeration stops cleanly, exhaustive:false).
	Deadline map[string]time.Duration
	// Watchdog is the per-case watchdog (default 60s).
	Watchdog time.Duration
	// MemLimit is RLIMIT_AS for workers in bytes (default 8 GiB).
	MemLimit uint64
	// Workers overrides the number of worker processes (default NumCPU).
	Workers int
	// InProcess runs shards in the parent (for checks that manage their own processes).
	InProcess bool
	// Bounds describes the bounds per tier (goes to the evidence file).
	Bounds map[string]string
}

type Violation struct {
	Key  string          `json:"key"`
	Msg  string          `json:"msg"`
	Case json.RawMessage `json:"case"`
}

// shardResult is what a worker sends back for one shard.
type shardResult struct {
	Shard      string            `json:"shard"`
	Evals      int64             `json:"evals"`
	Outcomes   []uint64          `json:"outcomes"`
	Trivial    int64             `json:"trivial"`
	Counters   map[string]int64  `json:"counters"`
	Samples    []json.RawMessage `json:"samples"`
	Violations []Violation       `json:"violations"`
	Complete   bool              `json:"complete"`
	Notes      []string          `json:"notes"`
}

// Reporter is handed to the check body in a worker.
type Reporter struct {
	res       shardResult
	outcomes  map[uint64]struct{}
	vkeys     map[string]int
	deadline  time.Time
	journal   []byte // mmap
	seq       *int64
	maxSample int
	expired   bool
	Tier      string
	Seed      int64
}

const maxOutcomes = 1 << 18

func (r *Reporter) Eval()         { r.res.Evals++; atomic.AddInt64(r.seq, 1) }
func (r *Reporter) EvalN(n int64) { r.res.Evals += n; atomic.AddInt64(r.seq, 1) }
func (r *Reporter) Count(k string, n int64) {
	r.res.Counters[k] += n
}
func (r *Reporter) Max(k string, n int64) {
	if r.res.Counters[k] < n {
		r.res.Counters[k] = n
	}
}
func (r *Reporter) Note(s string) {
	if len(r.res.Notes) < 20 {
		r.res.Notes = append(r.res.Notes, s)
	}
}

// Outcome records the signature of an observed outcome. Trivial outcomes are counted
// but do not contribute to distinct_nontrivial.
func (r *Reporter) Outcome(sig uint64, nontrivial bool) {
	if !nontrivial {
		r.res.Trivial++
		return
	}
	if len(r.outcomes) < maxOutcomes {
		r.outcomes[sig] = struct{}{}
	}
}

func (r *Reporter) OutcomeStr(s string, nontrivial bool) { r.Outcome(HashStr(s), nontrivial) }

func (r *Reporter) Sample(v any) {
	if len(r.res.Samples) < r.maxSample {
		b, err := json.Marshal(v)
		if err == nil {
			r.res.Samples = append(r.res.Samples, b)
		}
	}
}

// WantSample says whether another sample would be kept (avoid building it otherwise).
func (r *Reporter) WantSample() bool { return len(r.res.Samples) < r.maxSample }

// Journal records the case about to run, so that a dying worker can be attributed.
func (r *Reporter) Journal(s string) {
	if r.journal == nil {
		return
	}
	n := copy(r.journal[8:], s)
	r.journal[0] = byte(n)
	r.journal[1] = byte(n >> 8)
	r.journal[2] = byte(n >> 16)
	atomic.AddInt64(r.seq, 1)
}

// Violation reports a violated law. key is the narrow signature used for
// de-duplication and known-finding matching.
func (r *Reporter) Violation(key string, c any, msg string) {
	r.vkeys[key]++
	if r.vkeys[key] > 2 || len(r.res.Violations) > 20000 {
		r.res.Counters["violations_suppressed_dups"]++
		return
	}
	b, _ := json.Marshal(c)
	r.res.Violations = append(r.res.Violations, Violation{Key: key, Msg: msg, Case: b})
}

func (r *Reporter) NumViolations() int { return len(r.res.Violations) }

// Expired reports whether the internal deadline has passed; the body must then return,
// after calling Incomplete.
func (r *Reporter) Expired() bool {
	if r.expired {
		return true
	}
	if r.res.Evals&0x3ff == 0 || true {
		if !r.deadline.IsZero() && time.Now().After(r.deadline) {
			r.expired = true
		}
	}
	return r.expired
}

// Incomplete marks the shard as not completely enumerated.
func (r *Reporter) Incomplete(why string) {
	r.res.Complete = false
	r.Note("incomplete: " + why)
}

// Guard runs f, converting a panic into a violation keyed by the innermost
// repository frame.
func (r *Reporter) Guard(prop string, c any, f func()) (ok bool) {
	defer func() {
		if e := recover(); e != nil {
			st := debug.Stack()
			site := PanicSite(st)
			if os.Getenv("VERIF_SHOW_STACK") != "" {
				fmt.Fprintf(os.Stderr, "panic: %v\n%s\n", e, repoFrames(st))
			}
			r.Violation(prop+":panic@"+site, c, fmt.Sprintf("panic: %v at %s", e, site))
			ok = false
		}
	}()
	f()
	return true
}

// PanicSite returns the innermost go-text/typesetting function in a stack trace.
func PanicSite(st []byte) string {
	lines := strings.Split(string(st), "\n")
	seenPanic := false
	for _, l := range lines {
		if strings.HasPrefix(l, "panic(") {
			seenPanic = true
			continue
		}
		if !seenPanic {
			continue
		}
		if strings.HasPrefix(l, "github.com/go-text/typesetting/") {
			f := strings.TrimPrefix(l, "github.com/go-text/typesetting/")
			if i := strings.LastIndex(f, "("); i > 0 {
				f = f[:i]
			}
			return f
		}
	}
	// no panic( frame (e.g. custom): first repo frame
	for _, l := range lines {
		if strings.HasPrefix(l, "github.com/go-text/typesetting/") {
			f := strings.TrimPrefix(l, "github.com/go-text/typesetting/")
			if i := strings.LastIndex(f, "("); i > 0 {
				f = f[:i]
			}
			return f
		}
	}
	return "unknown"
}

func HashStr(s string) uint64 {
	h := fnv.New64a()
	h.Write([]byte(s))
	return h.Sum64()
}

func HashBytes(b []byte) uint64 {
	h := fnv.New64a()
	h.Write(b)
	return h.Sum64()
}

// ---------------------------------------------------------------------------
// known findings

type Finding struct {
	Status   string `json:"status"` // known | fixed
	Property string `json:"property"`
	Key      string `json:"key"`
	What     string `json:"what"`
	Witness  any    `json:"witness,omitempty"`
	Commit   string `json:"commit,omitempty"`
}

func loadFindings() []Finding {
	f, err := os.Open(filepath.Join(Root, "known_findings.jsonl"))
	if err != nil {
		return nil
	}
	defer f.Close()
	var out []Finding
	sc := bufio.NewScanner(f)
	sc.Buffer(make([]byte, 1<<20), 1<<24)
	for sc.Scan() {
		line := strings.TrimSpace(sc.Text())
		if line == "" || strings.HasPrefix(line, "#") {
			continue
		}
		var fd Finding
		if err := json.Unmarshal([]byte(line), &fd); err == nil {
			out = append(out, fd)
		}
	}
	return out
}

// ---------------------------------------------------------------------------
// evidence

type Evidence struct {
	PropertyID  string         `json:"property_id"`
	Tier        string         `json:"tier"`
	Seed        int64          `json:"seed"`
	Level       string         `json:"level"`
	Coverage    map[string]any `json:"coverage"`
	Assumptions []string       `json:"assumptions"`
	WallS       float64        `json:"wall_s"`
	Violations  int            `json:"violations"`
}

// ---------------------------------------------------------------------------
// parent / worker

func seed() int64 {
	if s := os.Getenv("VERIF_SEED"); s != "" {
		if v, err := strconv.ParseInt(s, 10, 64); err == nil {
			return v
		}
	}
	return 0
}

// Main is the entry point of the check binary.
func Main(checks map[string]*Check) {
	if len(os.Args) < 2 {
		fmt.Fprintln(os.Stderr, "usage: check <ID> [--tier quick|thorough] [--replay file] | check --worker <ID> <tier>")
		ids := []string{}
		for k := range checks {
			ids = append(ids, k)
		}
		sort.Strings(ids)
		fmt.Fprintln(os.Stderr, "checks:", strings.Join(ids, " "))
		os.Exit(2)
	}
	if os.Args[1] == "--worker" {
		c := checks[os.Args[2]]
		workerMain(c, os.Args[3])
		return
	}
	id := os.Args[1]
	c := checks[id]
	if c == nil {
		fmt.Fprintln(os.Stderr, "unknown check", id)
		os.Exit(2)
	}
	tier := os.Getenv("VERIF_TIER")
	if tier == "" {
		tier = "quick"
	}
	replay := ""
	only := ""
	for i := 2; i < len(os.Args); i++ {
		switch os.Args[i] {
		case "--tier":
			i++
			tier = os.Args[i]
		case "--replay":
			i++
			replay = os.Args[i]
		case "--shard":
			i++
			only = os.Args[i]
		}
	}
	if replay != "" {
		os.Exit(replayMain(c, replay))
	}
	os.Exit(parentMain(c, tier, only))
}

func newReporter(tier string, deadline time.Time) *Reporter {
	var seq int64
	return &Reporter{
		res:       shardResult{Counters: map[string]int64{}, Complete: true},
		outcomes:  map[uint64]struct{}{},
		vkeys:     map[string]int{},
		deadline:  deadline,
		seq:       &seq,
		maxSample: 3,
		Tier:      tier,
		Seed:      seed(),
	}
}

func replayMain(c *Check, path string) int {
	b, err := os.ReadFile(path)
	if err != nil {
		fmt.Fprintln(os.Stderr, err)
		return 2
	}
	var v Violation
	if err := json.Unmarshal(b, &v); err != nil {
		fmt.Fprintln(os.Stderr, err)
		return 2
	}
	r := newReporter("replay", time.Time{})
	c.Replay(v.Case, r)
	if len(r.res.Violations) > 0 {
		for _, x := range r.res.Violations {
			fmt.Printf("replay: violated key=%s %s\n", x.Key, x.Msg)
		}
		fmt.Printf("VIOLATION property=%s replay=%s\n", c.ID, path)
		return 1
	}
	fmt.Println("replay: no violation")
	return 0
}

func workerMain(c *Check, tier string) {
	if p := os.Getenv("VERIF_CPUPROFILE"); p != "" {
		if f, err := os.Create(p); err == nil {
			pprof.StartCPUProfile(f)
			defer pprof.StopCPUProfile()
		}
	}
	mem := c.MemLimit
	if mem == 0 {
		mem = 8 << 30
	}
	syscall.Setrlimit(syscall.RLIMIT_AS, &syscall.Rlimit{Cur: mem, Max: mem})
	debug.SetGCPercent(100)
	out := os.NewFile(3, "results")
	w := bufio.NewWriter(out)
	var deadline time.Time
	if s := os.Getenv("VERIF_DEADLINE_UNIX"); s != "" {
		v, _ := strconv.ParseInt(s, 10, 64)
		deadline = time.Unix(v, 0)
	}
	// journal
	var journal []byte
	if p := os.Getenv("VERIF_JOURNAL"); p != "" {
		f, err := os.OpenFile(p, os.O_RDWR|os.O_CREATE, 0o644)
		if err == nil {
			f.Truncate(1 << 16)
			journal, _ = syscall.Mmap(int(f.Fd()), 0, 1<<16, syscall.PROT_READ|syscall.PROT_WRITE, syscall.MAP_SHARED)
		}
	}
	wd := c.Watchdog
	if wd == 0 {
		wd = 60 * time.Second
	}
	var seqp atomic.Pointer[int64]
	var idle atomic.Bool
	idle.Store(true)
	go func() {
		last := int64(-1)
		lastChange := time.Now()
		for {
			time.Sleep(500 * time.Millisecond)
			p := seqp.Load()
			if p == nil || idle.Load() {
				lastChange = time.Now()
				continue
			}
			v := atomic.LoadInt64(p)
			if v != last {
				last = v
				lastChange = time.Now()
				continue
			}
			if time.Since(lastChange) > wd {
				buf := make([]byte, 1<<20)
				n := runtime.Stack(buf, true)
				os.Stderr.Write([]byte("WATCHDOG: case did not finish within " + wd.String() + "\n"))
				os.Stderr.Write(buf[:n])
				os.Exit(3)
			}
		}
	}()
	sc := bufio.NewScanner(os.Stdin)
	for sc.Scan() {
		shard := sc.Text()
		r := newReporter(tier, deadline)
		r.journal = journal
		seqp.Store(r.seq)
		r.res.Shard = shard
		r.Journal("shard " + shard)
		idle.Store(false)
		if r.Expired() {
			r.Incomplete("deadline before shard start")
		} else {
			c.Run(tier, shard, r)
		}
		idle.Store(true)
		for k := range r.outcomes {
			r.res.Outcomes = append(r.res.Outcomes, k)
		}
		b, err := json.Marshal(&r.res)
		if err != nil {
			fmt.Fprintln(os.Stderr, "marshal:", err)
			os.Exit(4)
		}
		w.Write(b)
		w.WriteByte('\n')
		w.Flush()
	}
}

type tailBuf struct {
	mu  sync.Mutex
	buf []byte
}

func (t *tailBuf) Write(p []byte) (int, error) {
	t.mu.Lock()
	defer t.mu.Unlock()
	t.buf = append(t.buf, p...)
	if len(t.buf) > 1<<18 {
		// keep head 64k and tail 64k
		h := append([]byte{}, t.buf[:1<<16]...)
		h = append(h, []byte("\n...[snip]...\n")...)
		t.buf = append(h, t.buf[len(t.buf)-(1<<16):]...)
	}
	return len(p), nil
}

func (t *tailBuf) String() string {
	t.mu.Lock()
	defer t.mu.Unlock()
	return string(t.buf)
}

func Scratch() string {
	s := os.Getenv("VERIF_SCRATCH")
	if s == "" {
		s = "/var/tmp"
	}
	return s
}

func parentMain(c *Check, tier string, only string) int {
	start := time.Now()
	shards := c.Shards(tier)
	if only != "" {
		shards = []string{only}
	}
	dl := c.Deadline[tier]
	if dl == 0 {
		// default internal deadlines: enumeration stops cleanly and the run reports exhaustive:false
		dl = 5 * time.Minute
		if tier == "thorough" {
			dl = 25 * time.Minute
		}
	}
	if s := os.Getenv("VERIF_DEADLINE_S"); s != "" {
		if v, err := strconv.Atoi(s); err == nil {
			dl = time.Duration(v) * time.Second
		}
	}
	var deadline time.Time
	if dl > 0 {
		deadline = start.Add(dl)
	}
	nw := c.Workers
	if nw == 0 {
		nw = runtime.NumCPU()
	}
	if nw > len(shards) {
		nw = len(shards)
	}
	if nw < 1 {
		nw = 1
	}
	scratch, err := os.MkdirTemp(Scratch(), "verif-"+c.ID+"-")
	if err != nil {
		fmt.Fprintln(os.Stderr, err)
		return 2
	}
	defer os.RemoveAll(scratch)

	var mu sync.Mutex
	total := shardResult{Counters: map[string]int64{}}
	outcomes := map[uint64]struct{}{}
	complete := true
	done := 0
	var viols []Violation
	var notes []string
	merge := func(res *shardResult) {
		mu.Lock()
		defer mu.Unlock()
		done++
		total.Evals += res.Evals
		total.Trivial += res.Trivial
		for k, v := range res.Counters {
			if strings.HasPrefix(k, "max_") {
				if total.Counters[k] < v {
					total.Counters[k] = v
				}
			} else {
				total.Counters[k] += v
			}
		}
		for _, o := range res.Outcomes {
			outcomes[o] = struct{}{}
		}
		if len(total.Samples) < 6 && len(res.Samples) > 0 {
			total.Samples = append(total.Samples, res.Samples[0])
		}
		viols = append(viols, res.Violations...)
		if !res.Complete {
			complete = false
		}
		for _, n := range res.Notes {
			if len(notes) < 40 {
				notes = append(notes, res.Shard+": "+n)
			}
		}
	}

	queue := make(chan string, len(shards))
	for _, s := range shards {
		queue <- s
	}
	close(queue)

	if c.InProcess {
		for s := range queue {
			r := newReporter(tier, deadline)
			r.res.Shard = s
			if r.Expired() {
				r.Incomplete("deadline before shard start")
			} else {
				c.Run(tier, s, r)
			}
			for k := range r.outcomes {
				r.res.Outcomes = append(r.res.Outcomes, k)
			}
			merge(&r.res)
		}
	} else {
		var wg sync.WaitGroup
		for i := 0; i < nw; i++ {
			wg.Add(1)
			go func(i int) {
				defer wg.Done()
				runWorkerLoop(c, tier, i, scratch, deadline, queue, merge, func(v Violation) {
					mu.Lock()
					viols = append(viols, v)
					complete = false
					mu.Unlock()
				})
			}(i)
		}
		wg.Wait()
	}

	// classify violations
	findings := loadFindings()
	known := map[string]Finding{}
	for _, f := range findings {
		if f.Status == "known" && f.Property == c.ID {
			known[f.Key] = f
		}
	}
	os.MkdirAll(filepath.Join(outRoot(), "replays"), 0o755)
	seenKey := map[string]bool{}
	nviol := 0
	nknown := 0
	var vlines []string
	sort.SliceStable(viols, func(i, j int) bool {
		if viols[i].Key != viols[j].Key {
			return viols[i].Key < viols[j].Key
		}
		return len(viols[i].Case) < len(viols[j].Case)
	})
	knownSeen := map[string]int{}
	for _, v := range viols {
		if f, ok := known[v.Key]; ok {
			knownSeen[v.Key]++
			if knownSeen[v.Key] == 1 {
				nknown++
				fmt.Printf("KNOWN-FINDING: property=%s key=%s %s\n", c.ID, v.Key, f.What)
			}
			continue
		}
		if seenKey[v.Key] {
			continue
		}
		seenKey[v.Key] = true
		nviol++
		b, _ := json.MarshalIndent(v, "", " ")
		h := sha256.Sum256(b)
		p := filepath.Join(outRoot(), "replays", c.ID+"-"+hex.EncodeToString(h[:6])+".json")
		os.WriteFile(p, b, 0o644)
		fmt.Printf("violation key=%s: %s\n", v.Key, trunc(v.Msg, 600))
		vlines = append(vlines, fmt.Sprintf("VIOLATION property=%s replay=%s", c.ID, p))
	}

	wall := time.Since(start).Seconds()
	cov := map[string]any{
		"evaluations":         total.Evals,
		"distinct_nontrivial": len(outcomes),
		"trivial_outcomes":    total.Trivial,
		"rule":                c.Rule,
		"samples":             samplesOrEmpty(total.Samples),
		"exhaustive":          complete,
		"shards":              len(shards),
		"shards_done":         done,
		"known_findings_seen": nknown,
	}
	if c.Bounds != nil {
		cov["bounds"] = c.Bounds[tier]
	}
	for k, v := range total.Counters {
		cov[k] = v
	}
	if len(notes) > 0 {
		cov["notes"] = notes
	}
	if c.Level == "model_checking" {
		// every explored history runs on the implementation itself, so every trace is validated against it
		if _, ok := cov["states"]; !ok {
			cov["states"] = len(outcomes)
			cov["states_definition"] = "distinct observable outcome signatures (no hidden-state merging is performed; histories are enumerated without deduplication)"
		}
		if _, ok := cov["transitions"]; !ok {
			cov["transitions"] = total.Evals
		}
		if _, ok := cov["traces_validated_against_impl"]; !ok {
			cov["traces_validated_against_impl"] = total.Evals
		}
	}
	ev := Evidence{PropertyID: c.ID, Tier: tier, Seed: seed(), Level: c.Level, Coverage: cov,
		Assumptions: c.Assumptions, WallS: wall, Violations: nviol}
	eb, _ := json.MarshalIndent(&ev, "", " ")
	os.MkdirAll(filepath.Join(outRoot(), "evidence"), 0o755)
	if only == "" {
		os.WriteFile(filepath.Join(outRoot(), "evidence", c.ID+".json"), eb, 0o644)
	}
	fmt.Printf("%s tier=%s evaluations=%d distinct_nontrivial=%d exhaustive=%v shards=%d/%d known=%d violations=%d wall=%.1fs\n",
		c.ID, tier, total.Evals, len(outcomes), complete, done, len(shards), nknown, nviol, wall)
	keys := make([]string, 0, len(total.Counters))
	for k := range total.Counters {
		keys = append(keys, k)
	}
	sort.Strings(keys)
	for _, k := range keys {
		fmt.Printf("  %s=%d\n", k, total.Counters[k])
	}
	for _, n := range notes {
		fmt.Println("  note:", n)
	}
	// vacuity self-test
	if len(outcomes) < 2 && nviol == 0 && complete {
		fmt.Printf("SELF-TEST FAILED: %s explored %d cases with %d distinct non-trivial outcomes (vacuous)\n", c.ID, total.Evals, len(outcomes))
		return 2
	}
	if nviol > 0 {
		for _, l := range vlines {
			fmt.Println(l)
		}
		return 1
	}
	return 0
}

func trunc(s string, n int) string {
	if len(s) > n {
		return s[:n] + "…"
	}
	return s
}

func runWorkerLoop(c *Check, tier string, idx int, scratch string, deadline time.Time,
	queue chan string, merge func(*shardResult), died func(Violation)) {
	for {
		// peek if work remains
		first, ok := <-queue
		if !ok {
			return
		}
		journalPath := filepath.Join(scratch, fmt.Sprintf("journal-%d", idx))
		os.Remove(journalPath)
		cmd := exec.Command(os.Args[0], "--worker", c.ID, tier)
		cmd.Env = append(os.Environ(), "GOMAXPROCS=1", "VERIF_JOURNAL="+journalPath, "VERIF_WORKER_IDX="+strconv.Itoa(idx),
			"VERIF_WORKER_SCRATCH="+scratch)
		if !deadline.IsZero() {
			cmd.Env = append(cmd.Env, "VERIF_DEADLINE_UNIX="+strconv.FormatInt(deadline.Unix(), 10))
		}
		stdin, _ := cmd.StdinPipe()
		pr, pw, _ := os.Pipe()
		cmd.ExtraFiles = []*os.File{pw}
		tb := &tailBuf{}
		cmd.Stdout = tb
		cmd.Stderr = tb
		if err := cmd.Start(); err != nil {
			fmt.Fprintln(os.Stderr, "cannot start worker:", err)
			os.Exit(2)
		}
		pw.Close()
		rd := bufio.NewReaderSize(pr, 1<<20)
		cur := first
		fmt.Fprintln(stdin, cur)
		alive := true
		for alive {
			line, err := rd.ReadBytes('\n')
			if err != nil {
				alive = false
				break
			}
			var res shardResult
			if err := json.Unmarshal(line, &res); err != nil {
				fmt.Fprintln(os.Stderr, "bad worker result:", err)
				alive = false
				break
			}
			merge(&res)
			cur = ""
			next, ok := <-queue
			if !ok {
				stdin.Close()
				cmd.Wait()
				pr.Close()
				return
			}
			cur = next
			fmt.Fprintln(stdin, cur)
		}
		stdin.Close()
		err := cmd.Wait()
		pr.Close()
		// worker died while running cur
		jc := readJournal(journalPath)
		out := tb.String()
		site := "unknown"
		kind := "died"
		switch {
		case strings.Contains(out, "WATCHDOG:"):
			kind = "hang"
			site = hangSite(out)
		case strings.Contains(out, "out of memory") || strings.Contains(out, "cannot allocate"):
			kind = "oom"
			site = firstRepoFrame(out)
		default:
			site = firstRepoFrame(out)
		}
		cs, _ := json.Marshal(map[string]any{"journal": jc, "shard": cur})
		// a worker may end itself on a violation it cannot survive (see ExitWithViolation): key and case are in its output
		if i := strings.LastIndex(out, exitKeyMarker); i >= 0 {
			key := out[i+len(exitKeyMarker):]
			if j := strings.IndexByte(key, '\n'); j >= 0 {
				key = key[:j]
			}
			var raw json.RawMessage = cs
			if k := strings.LastIndex(out, exitCaseMarker); k >= 0 {
				line := out[k+len(exitCaseMarker):]
				if j := strings.IndexByte(line, '\n'); j >= 0 {
					line = line[:j]
				}
				if json.Valid([]byte(line)) {
					raw = json.RawMessage(line)
				}
			}
			died(Violation{Key: key, Msg: fmt.Sprintf("worker ended itself while running shard %q, case %q: %s", cur, jc, trunc(tailOf(out, 1500), 1500)), Case: raw})
			continue
		}
		died(Violation{Key: fmt.Sprintf("%s:%s@%s", c.ID, kind, site),
			Msg:  fmt.Sprintf("worker %v while running shard %q, journalled case %q; output tail:\n%s", err, cur, jc, trunc(tailOf(out, 3000), 3000)),
			Case: cs})
		// continue with a new worker for remaining shards
	}
}

func tailOf(s string, n int) string {
	if len(s) > n {
		return s[len(s)-n:]
	}
	return s
}

func firstRepoFrame(out string) string {
	for _, l := range strings.Split(out, "\n") {
		if strings.HasPrefix(l, "github.com/go-text/typesetting/") {
			f := strings.TrimPrefix(l, "github.com/go-text/typesetting/")
			if i := strings.LastIndex(f, "("); i > 0 {
				f = f[:i]
			}
			return f
		}
	}
	return "unknown"
}

func hangSite(out string) string {
	// first goroutine that has a repo frame
	return firstRepoFrame(out)
}

func readJournal(p string) string {
	b, err := os.ReadFile(p)
	if err != nil || len(b) < 8 {
		return ""
	}
	n := int(b[0]) | int(b[1])<<8 | int(b[2])<<16
	if 8+n > len(b) {
		n = len(b) - 8
	}
	return string(bytes.TrimRight(b[8:8+n], "\x00"))
}

// Trunc shortens a string for messages.
func Trunc(s string, n int) string { return trunc(s, n) }

func samplesOrEmpty(s []json.RawMessage) []json.RawMessage {
	if s == nil {
		return []json.RawMessage{}
	}
	return s
}

// repoFrames keeps the go-text/typesetting frames (function and file:line) of a stack trace.
func repoFrames(st []byte) string {
	lines := strings.Split(string(st), "\n")
	var b strings.Builder
	for i, l := range lines {
		if strings.HasPrefix(l, "github.com/go-text/typesetting/") && i+1 < len(lines) {
			b.WriteString("  " + strings.TrimPrefix(l, "github.com/go-text/typesetting/") + "\n     " + strings.TrimSpace(lines[i+1]) + "\n")
		}
	}
	return b.String()
}

const (
	exitKeyMarker  = "VERIF-EXIT-VIOLATION-KEY "
	exitCaseMarker = "VERIF-EXIT-VIOLATION-CASE "
)

// ExitWithViolation ends a worker process on a violation the worker cannot survive (for example an
// allocation running far beyond its budget): the parent reports it with this key and case, and
// continues the remaining shards with a new worker.
func ExitWithViolation(key string, cs any, msg string) {
	b, _ := json.Marshal(cs)
	fmt.Fprintf(os.Stderr, "\n%s\n%s%s\n%s%s\n", msg, exitCaseMarker, b, exitKeyMarker, key)
	os.Exit(5)
}
