package checks

// C19 — Written font files read back unchanged.

import (
	"bytes"
	"encoding/binary"
	"encoding/json"
	"fmt"
	"sort"
	"strconv"
	"strings"

	"github.com/go-text/typesetting/font"
	ot "github.com/go-text/typesetting/font/opentype"

	"verif/corpus"
	"verif/mc"
)

type c19case struct {
	Lens     []int    `json:"lens,omitempty"`
	Pattern  int      `json:"pattern"`
	Spare    int      `json:"spare"`
	TagMode  int      `json:"tagmode"`
	File     string   `json:"file,omitempty"`
	TagNames []string `json:"tags,omitempty"`
}

// refChecksum: OpenType spec "calcTableChecksum": sum of big-endian uint32 over the
// table zero-padded to a multiple of four.
func refChecksum(b []byte) uint32 {
	var sum uint32
	for i := 0; i < len(b); i += 4 {
		var w [4]byte
		copy(w[:], b[i:])
		sum += uint32(w[0])<<24 | uint32(w[1])<<16 | uint32(w[2])<<8 | uint32(w[3])
	}
	return sum
}

type refEntry struct {
	tag, sum, off, length uint32
}

// refDirectory is the independent directory reader.
func refDirectory(file []byte) (version uint32, search [3]uint16, ents []refEntry, err error) {
	if len(file) < 12 {
		return 0, search, nil, fmt.Errorf("file shorter than the sfnt header")
	}
	version = binary.BigEndian.Uint32(file)
	n := int(binary.BigEndian.Uint16(file[4:]))
	search = [3]uint16{binary.BigEndian.Uint16(file[6:]), binary.BigEndian.Uint16(file[8:]), binary.BigEndian.Uint16(file[10:])}
	if len(file) < 12+16*n {
		return version, search, nil, fmt.Errorf("directory of %d entries does not fit in %d bytes", n, len(file))
	}
	for i := 0; i < n; i++ {
		e := file[12+16*i:]
		ents = append(ents, refEntry{binary.BigEndian.Uint32(e), binary.BigEndian.Uint32(e[4:]), binary.BigEndian.Uint32(e[8:]), binary.BigEndian.Uint32(e[12:])})
	}
	return
}

func c19Tags(n, mode int) []ot.Tag {
	tags := make([]ot.Tag, n)
	for i := range tags {
		switch mode {
		case 0: // spread
			tags[i] = ot.Tag(0x41000000 + uint32(i)*0x01010101)
		case 1: // differ in the last byte only
			tags[i] = ot.Tag(0x61626300 + uint32(i))
		case 2: // extremes: 0 first, 0xFFFFFFFF last
			tags[i] = ot.Tag(0x7F000000 + uint32(i))
			if i == 0 {
				tags[i] = 0
			}
			if i == n-1 && n > 1 {
				tags[i] = 0xFFFFFFFF
			}
		}
	}
	return tags
}

func c19Fill(b []byte, pattern, salt int) {
	for i := range b {
		switch pattern {
		case 0:
			b[i] = 0
		case 1:
			b[i] = 0xFF
		case 2:
			b[i] = byte(i*7 + salt*31 + 1)
		case 3: // words whose sum overflows 32 bits quickly
			b[i] = byte(0x80 | (i+salt)&0x7F)
		}
	}
}

// c19One builds the tables inside ONE shared backing array (so that spare capacity of table i
// aliases the sentinel gap and then table i+1), calls WriteTTF and checks everything.
func c19One(r *mc.Reporter, cs c19case) {
	n := len(cs.Lens)
	tags := c19Tags(n, cs.TagMode)
	total := 0
	for _, l := range cs.Lens {
		total += l + cs.Spare
	}
	backing := make([]byte, total+8)
	for i := range backing {
		backing[i] = 0xA5 // sentinel
	}
	tables := make([]ot.Table, n)
	pos := 0
	for i, l := range cs.Lens {
		c19Fill(backing[pos:pos+l], cs.Pattern, i)
		// capacity reaches over the sentinel gap into the next table
		tables[i] = ot.Table{Content: backing[pos : pos+l : len(backing)], Tag: tags[i]}
		if cs.Spare == 0 {
			tables[i].Content = backing[pos : pos+l : pos+l]
		}
		pos += l + cs.Spare
	}
	c19Check(r, cs, tables, backing)
}

func c19Check(r *mc.Reporter, cs c19case, tables []ot.Table, backing []byte) {
	r.Eval()
	before := append([]byte(nil), backing...)
	type hdr struct{ l, c int }
	hdrs := make([]hdr, len(tables))
	for i, t := range tables {
		hdrs[i] = hdr{len(t.Content), cap(t.Content)}
	}
	var out []byte
	if !r.Guard("C19", cs, func() { out = ot.WriteTTF(tables) }) {
		return
	}
	n := len(tables)
	if !bytes.Equal(before, backing) {
		r.Violation("C19:caller-buffer-modified", cs, "WriteTTF modified the caller's backing array (bytes between len and cap or neighbouring tables)")
	}
	for i, t := range tables {
		if len(t.Content) != hdrs[i].l || cap(t.Content) != hdrs[i].c {
			r.Violation("C19:caller-slice-modified", cs, "WriteTTF modified the caller's table slice headers")
		}
	}
	version, search, ents, err := refDirectory(out)
	if err != nil {
		r.Violation("C19:structure", cs, err.Error())
		return
	}
	if version != 0x00010000 && version != 0x4F54544F && version != 0x74727565 {
		r.Violation("C19:version", cs, fmt.Sprintf("sfnt version %08x", version))
	}
	if len(ents) != n {
		r.Violation("C19:numTables", cs, fmt.Sprintf("numTables=%d want %d", len(ents), n))
		return
	}
	if n >= 1 {
		// searchRange = 16 * 2^floor(log2 n), entrySelector = floor(log2 n), rangeShift = 16 n - searchRange
		es := 0
		for 1<<(es+1) <= n {
			es++
		}
		want := [3]uint16{uint16(16 << es), uint16(es), uint16(16*n - 16<<es)}
		if search != want {
			r.Violation("C19:search-fields", cs, fmt.Sprintf("searchRange/entrySelector/rangeShift=%v want %v", search, want))
		}
	} else {
		r.Count("n0_header_fields_not_judged", 1)
	}
	type span struct{ a, b uint32 }
	var spans []span
	unaligned := false
	for i, e := range ents {
		if e.tag != uint32(tables[i].Tag) {
			r.Violation("C19:directory-order", cs, fmt.Sprintf("entry %d has tag %08x want %08x", i, e.tag, uint32(tables[i].Tag)))
			return
		}
		if i > 0 && ents[i-1].tag >= e.tag {
			r.Violation("C19:directory-order", cs, "directory not sorted by tag")
		}
		if e.length != uint32(len(tables[i].Content)) {
			r.Violation("C19:length", cs, fmt.Sprintf("entry %d length %d want %d", i, e.length, len(tables[i].Content)))
			continue
		}
		if uint64(e.off)+uint64(e.length) > uint64(len(out)) || e.off < uint32(12+16*n) {
			r.Violation("C19:offset", cs, fmt.Sprintf("entry %d [%d,+%d) outside the file body (size %d)", i, e.off, e.length, len(out)))
			continue
		}
		if !bytes.Equal(out[e.off:e.off+e.length], tables[i].Content) {
			r.Violation("C19:content", cs, fmt.Sprintf("entry %d bytes differ from the table given", i))
		}
		if want := refChecksum(tables[i].Content); e.sum != want {
			r.Violation("C19:checksum:len%4="+strconv.Itoa(len(tables[i].Content)%4), cs,
				fmt.Sprintf("entry %d (length %d) checksum %08x want %08x", i, e.length, e.sum, want))
		}
		if e.off%4 != 0 {
			unaligned = true
		}
		if e.length > 0 {
			spans = append(spans, span{e.off, e.off + e.length})
		}
	}
	sort.Slice(spans, func(i, j int) bool { return spans[i].a < spans[j].a })
	for i := 1; i < len(spans); i++ {
		if spans[i].a < spans[i-1].b {
			r.Violation("C19:overlap", cs, "table bodies overlap")
		}
	}
	if unaligned {
		r.Count("files_with_unaligned_table_offsets(reported,not judged)", 1)
	}
	// read back through the library
	var ld *ot.Loader
	if !r.Guard("C19", cs, func() { ld, err = ot.NewLoader(bytes.NewReader(out)) }) {
		return
	}
	if err != nil {
		r.Violation("C19:loader-error", cs, "NewLoader: "+err.Error())
		return
	}
	got := ld.Tables()
	if len(got) != n {
		r.Violation("C19:loader-tags", cs, fmt.Sprintf("loader reports %d tables want %d", len(got), n))
		return
	}
	for i := range got {
		if got[i] != tables[i].Tag {
			r.Violation("C19:loader-tags", cs, "loader reports different tags")
			return
		}
		var b []byte
		r.Guard("C19", cs, func() { b, err = ld.RawTable(got[i]) })
		if err != nil {
			atEOF := int(ents[i].off) >= len(out) && len(tables[i].Content) == 0
			if atEOF {
				r.Violation("C19:loader-rawtable-error:empty-table-at-eof", cs, fmt.Sprintf("RawTable(%08x): %v (zero-length table placed at end of file)", uint32(got[i]), err))
			} else {
				r.Violation("C19:loader-rawtable-error", cs, fmt.Sprintf("RawTable(%08x): %v", uint32(got[i]), err))
			}
			continue
		}
		if !bytes.Equal(b, tables[i].Content) {
			r.Violation("C19:loader-content", cs, fmt.Sprintf("RawTable(%08x) differs", uint32(got[i])))
		}
	}
	sig := fmt.Sprintf("n=%d mod4=%v unaligned=%v", min(n, 5), c19mods(tables), unaligned)
	r.OutcomeStr(sig, n > 0)
	if r.WantSample() && n >= 2 {
		r.Sample(cs)
	}
}

func c19mods(t []ot.Table) string {
	var m [4]bool
	for _, x := range t {
		m[len(x.Content)%4] = true
	}
	return fmt.Sprint(m)
}

func c19Shards(tier string) []string {
	s := []string{"n0", "n1", "n2", "n3"}
	for a := 0; a < 10; a++ {
		s = append(s, fmt.Sprintf("n4:%d", a))
	}
	hi := 40
	for n := 5; n <= hi; n++ {
		s = append(s, fmt.Sprintf("cycle:%d", n))
	}
	nf := len(corpus.Files())
	chunks := 16
	if tier == "quick" {
		chunks = 8
	}
	for i := 0; i < chunks; i++ {
		s = append(s, fmt.Sprintf("corpus:%d/%d:%d", i, chunks, nf))
	}
	return s
}

var c19CycleLens = []int{0, 1, 2, 3, 4, 5, 7, 4096, 4095, 4094, 4093, 13, 1022, 6}

func c19Run(tier, shard string, r *mc.Reporter) {
	variants := func(lens []int) {
		for pattern := 0; pattern < 4; pattern++ {
			for _, spare := range []int{0, 1, 3, 8} {
				for tm := 0; tm < 3; tm++ {
					if tm > 0 && (pattern != 2 || spare != 3) {
						continue // tag modes crossed with one content/capacity setting
					}
					c19One(r, c19case{Lens: lens, Pattern: pattern, Spare: spare, TagMode: tm})
				}
			}
		}
	}
	switch {
	case shard == "n0":
		variants([]int{})
	case shard == "n1" || shard == "n2" || shard == "n3":
		n := int(shard[1] - '0')
		lens := make([]int, n)
		var rec func(i int)
		rec = func(i int) {
			if i == n {
				variants(append([]int(nil), lens...))
				return
			}
			for l := 0; l < 10; l++ {
				lens[i] = l
				rec(i + 1)
			}
		}
		rec(0)
	case strings.HasPrefix(shard, "n4:"):
		a, _ := strconv.Atoi(shard[3:])
		for b := 0; b < 10; b++ {
			for c := 0; c < 10; c++ {
				for d := 0; d < 10; d++ {
					variants([]int{a, b, c, d})
				}
			}
		}
	case strings.HasPrefix(shard, "cycle:"):
		n, _ := strconv.Atoi(shard[6:])
		for start := 0; start < len(c19CycleLens); start++ {
			lens := make([]int, n)
			for i := range lens {
				lens[i] = c19CycleLens[(start+i)%len(c19CycleLens)]
			}
			variants(lens)
		}
	case strings.HasPrefix(shard, "corpus:"):
		var i, k, nf int
		fmt.Sscanf(shard, "corpus:%d/%d:%d", &i, &k, &nf)
		files := corpus.Files()
		for j := i; j < len(files); j += k {
			if r.Tier == "quick" && len(files[j].Data) > 300<<10 {
				r.Count("corpus_files_skipped_quick(>300KiB)", 1)
				continue
			}
			c19Corpus(r, &files[j])
		}
	}
}

func c19Corpus(r *mc.Reporter, f *corpus.File) {
	for fi, ld := range corpus.Loaders(f) {
		tags := ld.Tables()
		var tables []ot.Table
		ok := true
		var names []string
		for _, t := range tags {
			b, err := ld.RawTable(t)
			if err != nil {
				ok = false
				break
			}
			tables = append(tables, ot.Table{Content: b, Tag: t})
			names = append(names, t.String())
		}
		if !ok {
			r.Count("corpus_faces_with_unreadable_table(skipped)", 1)
			continue
		}
		cs := c19case{File: fmt.Sprintf("%s#%d", f.Name, fi), Pattern: -1}
		r.Count("corpus_faces_rewritten", 1)
		c19Check(r, cs, tables, nil)
		// the rewritten file must still parse as a font whenever the original face does
		r.Guard("C19", cs, func() {
			if _, err := font.NewFont(ld); err != nil {
				return
			}
			ld2, err := ot.NewLoader(bytes.NewReader(ot.WriteTTF(tables)))
			if err == nil {
				ld2.Type = ld.Type
				_, err = font.NewFont(ld2)
			}
			if err != nil {
				r.Violation("C19:rewritten-font-unparsable", cs, "font.NewFont fails on the rewritten file: "+err.Error())
			}
			r.Count("corpus_faces_reparsed_with_NewFont", 1)
		})
	}
}

func c19Replay(c json.RawMessage, r *mc.Reporter) {
	var cs c19case
	json.Unmarshal(c, &cs)
	if cs.File != "" {
		name := cs.File[:strings.LastIndexByte(cs.File, '#')]
		if f := corpus.Get(name); f != nil {
			c19Corpus(r, f)
		}
		return
	}
	c19One(r, cs)
}

func init() {
	Register(&mc.Check{
		ID:    "C19",
		Level: "exploration",
		Rule: "every table list with n in 0..4 and every length vector over 0..9 (11111 vectors) x 4 byte patterns x spare capacity {0,1,3,8} aliasing a sentinel-filled shared backing array, " +
			"3 tag layouts; n in 5..40 with lengths cycling through {0..7,13,1022,4093..4096} at every phase; every corpus face rewritten from its own tables. " +
			"Oracle: independent sfnt directory reader + spec checksum + NewLoader read-back + byte comparison of the caller's backing array. " +
			"Non-trivial = at least one table; distinct = (min(n,5), set of length residues mod 4, alignment) signatures",
		Assumptions: []string{
			"4-byte alignment of table offsets is reported in the evidence but not judged (the property lists offsets and lengths, not alignment)",
			"header search fields are not judged for n=0 (log2(0) is undefined in the OpenType formula)",
		},
		Shards: c19Shards,
		Run:    c19Run,
		Replay: c19Replay,
		Bounds: map[string]string{"quick": "n<=4 complete over lengths 0..9; n 5..40 cyclic; corpus files <= 300 KiB", "thorough": "same + all corpus files"},
	})
}
