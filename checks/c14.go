package checks

// C14 — Font resolution is total, cache-transparent and follows the documented priority.
// Explicit exploration of every operation history up to a depth on a real FontMap.

import (
	"encoding/json"
	"fmt"
	"io"
	"log"
	"strconv"
	"strings"

	"github.com/go-text/typesetting/font"
	"github.com/go-text/typesetting/fontscan"
	"github.com/go-text/typesetting/language"

	"verif/mc"
)

// ---- synthetic faces with chosen coverage ---------------------------------------------------------

type setCmap []rune

type setCmapIter struct {
	s   setCmap
	pos int
}

func (it *setCmapIter) Next() bool { return it.pos < len(it.s) }
func (it *setCmapIter) Char() (rune, font.GID) {
	r := it.s[it.pos]
	it.pos++
	return r, font.GID(it.pos)
}
func (s setCmap) Iter() font.CmapIter { return &setCmapIter{s: s} }
func (s setCmap) Lookup(r rune) (font.GID, bool) {
	for i, x := range s {
		if x == r {
			return font.GID(i + 1), true
		}
	}
	return 0, false
}

type c14face struct {
	family string
	aspect font.Aspect
	runes  []rune
}

var (
	aspRegular    = font.Aspect{Style: font.StyleNormal, Weight: font.WeightNormal, Stretch: font.StretchNormal}
	aspBold       = font.Aspect{Style: font.StyleNormal, Weight: font.WeightBold, Stretch: font.StretchNormal}
	aspItalic     = font.Aspect{Style: font.StyleItalic, Weight: font.WeightNormal, Stretch: font.StretchNormal}
	aspBoldItalic = font.Aspect{Style: font.StyleItalic, Weight: font.WeightBold, Stretch: font.StretchNormal}
)

var (
	aspCondensed = font.Aspect{Style: font.StyleNormal, Weight: font.WeightNormal, Stretch: font.StretchCondensed}
)

var c14Faces = []c14face{
	{"va", aspRegular, []rune{'a', 'b'}},
	{"va", aspBold, []rune{'a', 0x03B1}},
	{"vb", aspRegular, []rune{0x05D0, 'b'}},
	{"va mono", aspItalic, []rune{0x4E2D, 'b'}},
	{"vb", aspBoldItalic, []rune{0x263A, 0x03B1, 0x05D0}},
	{"va", aspItalic, []rune{'a', 0x263A}},
	{"va", aspCondensed, []rune{'a', 0x4E2D}},
}

var c14Runes = []rune{'a', 'b', 0x03B1, 0x05D0, 0x4E2D, 0x263A, 'z'}

// queries: pairs differing in exactly one field (families, weight, style, stretch) exist on purpose
var c14Queries = []fontscan.Query{
	{Families: []string{"va"}},
	{Families: []string{"vb", "va"}},
	{Families: []string{"serif"}},
	{},
	{Families: []string{"va"}, Aspect: font.Aspect{Weight: font.WeightBold}}, // differs from query 0 by the raw weight only
	{Families: []string{"vc"}},
	{Families: []string{"va mono", "vb"}, Aspect: aspItalic},
	{Families: []string{"va"}, Aspect: font.Aspect{Style: font.StyleItalic}},        // raw style only
	{Families: []string{"va"}, Aspect: font.Aspect{Stretch: font.StretchCondensed}}, // raw stretch only
	{Families: []string{"vb"}, Aspect: aspBold},
}

var c14Scripts = []language.Script{language.Latin, language.Hebrew, language.Common}
var c14CacheSizes = []int{0, 1, 2, 4096}

// operations: kind 0 AddFace(i) 1 SetQuery(i) 2 SetScript(i) 3 SetRuneCacheSize(i) 4 ResolveFace(i)
type c14op struct {
	K int `json:"k"`
	I int `json:"i"`
}

func c14Ops() []c14op {
	var ops []c14op
	for i := range c14Faces {
		ops = append(ops, c14op{0, i})
	}
	for i := range c14Queries {
		ops = append(ops, c14op{1, i})
	}
	for i := range c14Scripts {
		ops = append(ops, c14op{2, i})
	}
	for i := range c14CacheSizes {
		ops = append(ops, c14op{3, i})
	}
	for i := range c14Runes {
		ops = append(ops, c14op{4, i})
	}
	return ops
}

type c14case struct {
	Ops []c14op `json:"ops"`
}

func (o c14op) String() string {
	switch o.K {
	case 0:
		return fmt.Sprintf("AddFace(f%d:%s)", o.I, c14Faces[o.I].family)
	case 1:
		return fmt.Sprintf("SetQuery(%v/%v)", c14Queries[o.I].Families, c14Queries[o.I].Aspect.Weight)
	case 2:
		return fmt.Sprintf("SetScript(%s)", c14Scripts[o.I])
	case 3:
		return fmt.Sprintf("SetRuneCacheSize(%d)", c14CacheSizes[o.I])
	}
	return fmt.Sprintf("ResolveFace(U+%04X)", c14Runes[o.I])
}

// a live instance: the real FontMap plus the harness view of what was done to it
type c14inst struct {
	fm     *fontscan.FontMap
	faces  [7]*font.Face // created per instance (pointer identity is the observable)
	added  []int
	query  int // -1: never set
	script int // -1: never set
}

var c14Logger = log.New(io.Discard, "", 0)

func newC14inst() *c14inst {
	in := &c14inst{fm: fontscan.NewFontMap(c14Logger), query: -1, script: -1}
	for i, f := range c14Faces {
		in.faces[i] = &font.Face{Font: &font.Font{Cmap: setCmap(f.runes)}}
	}
	return in
}

func (in *c14inst) faceIndex(f *font.Face) int {
	for i, x := range in.faces {
		if x == f {
			return i
		}
	}
	if f == nil {
		return -1
	}
	return -2
}

func (in *c14inst) apply(o c14op) (res int, isResolve bool) {
	switch o.K {
	case 0:
		f := c14Faces[o.I]
		in.fm.AddFace(in.faces[o.I], fontscan.Location{File: "f" + strconv.Itoa(o.I)}, font.Description{Family: f.family, Aspect: f.aspect})
		in.added = append(in.added, o.I)
	case 1:
		q := c14Queries[o.I]
		q.Families = append([]string(nil), q.Families...)
		in.fm.SetQuery(q)
		in.query = o.I
	case 2:
		in.fm.SetScript(c14Scripts[o.I])
		in.script = o.I
	case 3:
		in.fm.SetRuneCacheSize(c14CacheSizes[o.I])
	case 4:
		return in.faceIndex(in.fm.ResolveFace(c14Runes[o.I])), true
	}
	return 0, false
}

func c14Covers(fi int, r rune) bool {
	for _, x := range c14Faces[fi].runes {
		if x == r {
			return true
		}
	}
	return false
}

func c14HasScript(fi int, s language.Script) bool {
	for _, x := range c14Faces[fi].runes {
		if language.LookupScript(x) == s {
			return true
		}
	}
	return false
}

// reference model of the documented steps. It returns the expected face, or -3 when the
// documentation leaves the answer open (generic families, no covering face).
func c14Model(added []int, qi, si int, r rune) (want int, step string) {
	q := fontscan.Query{}
	if qi >= 0 {
		q = c14Queries[qi]
	}
	fams := q.Families
	if len(fams) == 0 {
		fams = []string{""}
	}
	for _, f := range fams {
		switch f {
		case "serif", "sans-serif", "monospace", "cursive", "fantasy", "math", "emoji":
			return -3, "generic"
		}
	}
	script := language.Script(0)
	if si >= 0 {
		script = c14Scripts[si]
	}
	best := func(cands []int) []int { // CSS narrowing, keeping database order
		if len(cands) == 0 {
			return nil
		}
		var as []font.Aspect
		for _, c := range cands {
			as = append(as, c14Faces[c].aspect)
		}
		w := css52(as, q.Aspect)
		var out []int
		for _, c := range cands {
			if c14Faces[c].aspect == w {
				out = append(out, c)
			}
		}
		return out
	}
	firstCovering := func(cands []int) int {
		for _, c := range cands {
			if c14Covers(c, r) {
				return c
			}
		}
		return -1
	}
	// step 1: exact family, one face per family, in query order
	var step1 []int
	for _, f := range fams {
		var cands []int
		for _, a := range added {
			if font.NormalizeFamily(c14Faces[a].family) == font.NormalizeFamily(f) {
				cands = append(cands, a)
			}
		}
		if b := best(cands); len(b) > 0 {
			step1 = append(step1, b[0])
		}
	}
	if f := firstCovering(step1); f >= 0 {
		return f, "exact-family"
	}
	// step 2: families of the query (these names have no substitution) in query order, then fonts supporting the script
	var step2 []int
	seen := map[int]bool{}
	for _, f := range fams {
		for _, a := range added {
			if font.NormalizeFamily(c14Faces[a].family) == font.NormalizeFamily(f) && !seen[a] {
				step2 = append(step2, a)
				seen[a] = true
			}
		}
	}
	if script != 0 {
		for _, a := range added {
			if !seen[a] && c14HasScript(a, script) {
				step2 = append(step2, a)
				seen[a] = true
			}
		}
	}
	if f := firstCovering(best(step2)); f >= 0 {
		return f, "fallback"
	}
	// step 3: manually added fonts, pruned by aspect, in insertion order
	if f := firstCovering(best(added)); f >= 0 {
		return f, "manual"
	}
	// step 4: script coverage, ignoring the aspect
	if script != 0 {
		var s4 []int
		for _, a := range added {
			if c14HasScript(a, script) {
				s4 = append(s4, a)
			}
		}
		if f := firstCovering(s4); f >= 0 {
			return f, "script"
		}
	}
	return -3, "arbitrary"
}

type c14env struct {
	r   *mc.Reporter
	ops []c14op
}

// run replays a history on a fresh FontMap and checks every ResolveFace of it... only the last
// operation is judged (prefixes were judged when they were the whole history).
func (e *c14env) run(hist []c14op) {
	r := e.r
	cs := &c14case{Ops: hist}
	in := newC14inst()
	var last int
	var isRes bool
	ok := r.Guard("C14", cs, func() {
		for _, o := range hist {
			last, isRes = in.apply(o)
		}
	})
	r.Eval()
	r.Count("transitions", int64(len(hist)))
	if !ok || !isRes {
		return
	}
	ru := c14Runes[hist[len(hist)-1].I]
	desc := func() string {
		var s []string
		for _, o := range hist {
			s = append(s, o.String())
		}
		return strings.Join(s, "; ")
	}
	// (1) totality
	if len(in.added) > 0 && last < 0 {
		r.Violation("C14:nil-face", cs, "ResolveFace returned nil (or an unknown face) although fonts were added: "+desc())
		return
	}
	if len(in.added) == 0 {
		r.OutcomeStr("empty-map", false)
		return
	}
	// (2) differential: fresh map, same Add* calls in the same order, current query and script, no cache, one lookup
	fresh := newC14inst()
	var want int
	r.Guard("C14", cs, func() {
		fresh.fm.SetRuneCacheSize(0)
		for _, a := range in.added {
			fresh.apply(c14op{0, a})
		}
		if in.query >= 0 {
			fresh.apply(c14op{1, in.query})
		}
		if in.script >= 0 {
			fresh.apply(c14op{2, in.script})
		}
		want, _ = fresh.apply(c14op{4, hist[len(hist)-1].I})
	})
	if want != last {
		r.Violation("C14:depends-on-history", cs, fmt.Sprintf("after [%s] ResolveFace(U+%04X) = f%d, a fresh uncached map with the same fonts, query and script gives f%d", desc(), ru, last, want))
	}
	// (3) documented priority
	model, step := c14Model(in.added, in.query, in.script, ru)
	if model >= 0 && model != last {
		r.Violation("C14:priority:"+step, cs, fmt.Sprintf("after [%s] ResolveFace(U+%04X) = f%d, the documented order selects f%d at step %q", desc(), ru, last, model, step))
	}
	if model == -3 && step == "arbitrary" {
		// no candidate of any step covers the rune: any face is fine, but a covering face must not have been skipped
		_ = step
	}
	// the returned face can display the rune whenever the model says some step finds one
	if model >= 0 && !c14Covers(last, ru) {
		r.Violation("C14:uncovered", cs, fmt.Sprintf("after [%s] ResolveFace(U+%04X) = f%d which does not cover it although f%d does", desc(), ru, last, model))
	}
	r.OutcomeStr(fmt.Sprintf("%v|q%d|s%d|%d->%d:%s", in.added, in.query, in.script, ru, last, step), true)
	if r.WantSample() && len(hist) >= 3 {
		r.Sample(map[string]any{"history": desc(), "result": last})
	}
	// metadata of the result
	fam, asp := in.fm.FontMetadata(in.faces[last].Font)
	if fam != font.NormalizeFamily(c14Faces[last].family) || asp != c14Faces[last].aspect {
		r.Violation("C14:metadata", cs, fmt.Sprintf("FontMetadata of f%d = (%q,%v)", last, fam, asp))
	}
	if loc := in.fm.FontLocation(in.faces[last].Font); loc.File != "f"+strconv.Itoa(last) {
		r.Violation("C14:location", cs, fmt.Sprintf("FontLocation of f%d = %v", last, loc))
	}
}

func c14Depth(tier string) int {
	if tier == "thorough" {
		return 5
	}
	return 4
}

// base databases for the second phase (exploration from non-initial states)
var c14Bases = [][]int{{0, 1, 2, 3, 4, 5, 6}, {6, 5, 4, 3, 2, 1, 0}, {2, 0, 1}, {4, 6, 1}}

func c14Shards(tier string) []string {
	var s []string
	n := len(c14Ops())
	for i := 0; i < n; i++ {
		for j := 0; j < n; j++ {
			s = append(s, fmt.Sprintf("A:%d.%d", i, j))
		}
	}
	for b := range c14Bases {
		for i := 0; i < n; i++ {
			for j := 0; j < n; j++ {
				s = append(s, fmt.Sprintf("B%d:%d.%d", b, i, j))
			}
		}
	}
	return append([]string{"short"}, s...)
}

func c14Run(tier, shard string, r *mc.Reporter) {
	e := &c14env{r: r, ops: c14Ops()}
	depth := c14Depth(tier)
	if shard == "short" {
		for _, a := range e.ops {
			e.run([]c14op{a})
		}
		for _, b := range c14Bases {
			var h []c14op
			for _, f := range b {
				h = append(h, c14op{0, f})
			}
			e.run(h)
			for _, a := range e.ops {
				if a.K != 0 {
					e.run(append(append([]c14op(nil), h...), a))
				}
			}
		}
		return
	}
	var i, j int
	var base []c14op
	phase := shard[:strings.IndexByte(shard, ':')]
	fmt.Sscanf(shard[len(phase)+1:], "%d.%d", &i, &j)
	inBase := map[int]bool{}
	if phase[0] == 'B' {
		bi, _ := strconv.Atoi(phase[1:])
		for _, f := range c14Bases[bi] {
			base = append(base, c14op{0, f})
			inBase[f] = true
		}
	}
	nb := len(base)
	var rec func(h []c14op)
	rec = func(h []c14op) {
		if r.Expired() {
			return
		}
		e.run(h)
		if len(h)-nb == depth {
			return
		}
		for _, o := range e.ops {
			// adding the same face (same Location) twice is outside the documented contract
			dup := false
			if o.K == 0 {
				if inBase[o.I] {
					dup = true
				}
				for _, p := range h[nb:] {
					if p == o {
						dup = true
					}
				}
			}
			if dup {
				continue
			}
			rec(append(append([]c14op(nil), h...), o))
		}
	}
	first, second := e.ops[i], e.ops[j]
	if (first.K == 0 && (inBase[first.I] || first == second)) || (second.K == 0 && inBase[second.I]) {
		return
	}
	rec(append(append([]c14op(nil), base...), first, second))
	if r.Expired() {
		r.Incomplete("deadline")
	}
}

func c14Replay(raw json.RawMessage, r *mc.Reporter) {
	var c c14case
	if json.Unmarshal(raw, &c) != nil {
		return
	}
	e := &c14env{r: r, ops: c14Ops()}
	for n := 1; n <= len(c.Ops); n++ {
		e.run(c.Ops[:n])
	}
}

func init() {
	Register(&mc.Check{
		ID: "C14", Level: "model_checking",
		Rule: "explicit exploration of every history of operations up to the tier's depth on a real FontMap: AddFace of 7 synthetic faces (3 families, 5 aspects incl. stretch and style variants, overlapping and nested coverages over 6 runes), SetQuery (10 queries incl. generic, empty, unknown family, pairs differing in exactly one field), SetScript (3), SetRuneCacheSize (0,1,2,4096), ResolveFace (7 runes incl. one nobody covers); " +
			"phase A from the empty map, phase B from 4 pre-populated databases (non-initial states); every history ending in ResolveFace is judged: non-nil, equal to a fresh uncached FontMap given the same fonts/query/script, equal to a reference model of the four documented steps (CSS narrowing from C15), metadata/location of the result",
		Assumptions: []string{"faces are synthetic font.Face values whose Font only carries a Cmap (coverage is what FontMap reads); all are user provided", "generic families are judged by the differential oracle only (their expansion depends on the substitution tables)",
			"two AddFace calls with the same Location are outside the contract and not generated"},
		Shards: c14Shards, Run: c14Run, Replay: c14Replay,
		Bounds: map[string]string{"quick": "phase A: all histories of length <= 4 over 31 operations from the empty map; phase B: all histories of length <= 4 from 4 pre-populated databases", "thorough": "same with length <= 5"},
	})
}
