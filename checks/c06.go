package checks

// C06 — Grapheme, word and line boundaries follow UAX #29 / UAX #14 for every string.

import (
	"encoding/json"
	"fmt"
	"os"
	"strconv"
	"strings"
	"sync"
	"unicode"

	"github.com/go-text/typesetting/segmenter"
	ucd "github.com/go-text/typesetting/unicodedata"

	"verif/mc"
	"verif/ref/uaxref"
)

type c06case struct {
	Text  []rune `json:"text"`
	Prev  []rune `json:"prev,omitempty"`  // text the same Segmenter processed before (history cases)
	Drain int    `json:"drain,omitempty"` // how far the previous iterators were drained
}

// ---- rule-class alphabets, computed from the library's own lookups ---------------------------

type c06Alphabets struct {
	line, gr, word, joint []rune
}

var (
	c06AlphaOnce sync.Once
	c06Alpha     c06Alphabets
)

func c06Alphas() *c06Alphabets {
	c06AlphaOnce.Do(func() {
		seenL, seenG, seenW, seenJ := map[string]bool{}, map[string]bool{}, map[string]bool{}, map[string]bool{}
		for r := rune(0); r < 0x110000; r++ {
			if r >= 0xD800 && r <= 0xDFFF {
				continue
			}
			lc := ucd.LookupLineBreakClass(r)
			gc := ucd.LookupType(r)
			ep := unicode.Is(ucd.Extended_Pictographic, r)
			lit := ""
			switch r {
			case '\n', '\r', 0x200D, 0x0022, 0x2029, 0x0085, 0x000B, 0x000C, 0x2028:
				lit = fmt.Sprintf("lit%X", r)
			}
			// line: class, East Asian width only where rule LB30 reads it, ExtPict&Cn (LB30b), Mn/Mc for SA (LB1)
			ls := fmt.Sprintf("%p", lc) + lit
			if lc == ucd.BreakOP || lc == ucd.BreakCP {
				ls += fmt.Sprint(unicode.Is(ucd.LargeEastAsian, r))
			}
			if ep && gc == nil {
				ls += "epcn"
			}
			if lc == ucd.BreakSA {
				ls += fmt.Sprint(gc == unicode.Mn || gc == unicode.Mc)
			}
			gs := fmt.Sprintf("%p %v", ucd.LookupGraphemeBreakClass(r), ep) + lit
			ws := fmt.Sprintf("%p %v %v", ucd.LookupWordBreakClass(r), ep, unicode.Is(ucd.Word, r)) + lit
			if !seenL[ls] {
				seenL[ls] = true
				c06Alpha.line = append(c06Alpha.line, r)
			}
			if !seenG[gs] {
				seenG[gs] = true
				c06Alpha.gr = append(c06Alpha.gr, r)
			}
			if !seenW[ws] {
				seenW[ws] = true
				c06Alpha.word = append(c06Alpha.word, r)
			}
			js := ls + "|" + gs + "|" + ws
			if !seenJ[js] {
				seenJ[js] = true
				c06Alpha.joint = append(c06Alpha.joint, r)
			}
		}
	})
	return &c06Alpha
}

// ---- comparison --------------------------------------------------------------------------------

type c06env struct {
	r   *mc.Reporter
	seg segmenter.Segmenter
}

// observe reads the three iterators of a segmenter that has been Init-ed with text and checks
// their structural contract; it returns the boundary flags they imply.
func (e *c06env) observe(c *c06case, seg *segmenter.Segmenter, text []rune) (line []uint8, gr, wordSeg [][2]int, ok bool) {
	r := e.r
	n := len(text)
	line = make([]uint8, n+1)
	ok = true
	pos := 0
	li := seg.LineIterator()
	for li.Next() {
		l := li.Line()
		if l.Offset != pos || len(l.Text) == 0 || l.Offset+len(l.Text) > n || !sameRunes(l.Text, text[l.Offset:l.Offset+len(l.Text)]) {
			r.Violation("C06:line-iterator-structure", c, fmt.Sprintf("line segment {%d,%d} after position %d", l.Offset, len(l.Text), pos))
			return nil, nil, nil, false
		}
		pos += len(l.Text)
		if l.IsMandatoryBreak {
			line[pos] = uaxref.Mandatory
		} else {
			line[pos] = uaxref.Allowed
		}
	}
	if pos != n {
		r.Violation("C06:line-iterator-structure", c, fmt.Sprintf("line segments cover %d of %d runes", pos, n))
		return nil, nil, nil, false
	}
	pos = 0
	gi := seg.GraphemeIterator()
	for gi.Next() {
		g := gi.Grapheme()
		if g.Offset != pos || len(g.Text) == 0 || g.Offset+len(g.Text) > n || !sameRunes(g.Text, text[g.Offset:g.Offset+len(g.Text)]) {
			r.Violation("C06:grapheme-iterator-structure", c, fmt.Sprintf("grapheme segment {%d,%d} after position %d", g.Offset, len(g.Text), pos))
			return nil, nil, nil, false
		}
		gr = append(gr, [2]int{g.Offset, g.Offset + len(g.Text)})
		pos += len(g.Text)
	}
	if pos != n {
		r.Violation("C06:grapheme-iterator-structure", c, fmt.Sprintf("graphemes cover %d of %d runes", pos, n))
		return nil, nil, nil, false
	}
	wi := seg.WordIterator()
	last := 0
	for wi.Next() {
		w := wi.Word()
		if w.Offset < last || len(w.Text) == 0 || w.Offset+len(w.Text) > n || !sameRunes(w.Text, text[w.Offset:w.Offset+len(w.Text)]) {
			r.Violation("C06:word-iterator-structure", c, fmt.Sprintf("word segment {%d,%d} after position %d", w.Offset, len(w.Text), last))
			return nil, nil, nil, false
		}
		wordSeg = append(wordSeg, [2]int{w.Offset, w.Offset + len(w.Text)})
		last = w.Offset + len(w.Text)
	}
	return line, gr, wordSeg, true
}

func sameRunes(a, b []rune) bool {
	if len(a) != len(b) {
		return false
	}
	for i := range a {
		if a[i] != b[i] {
			return false
		}
	}
	return true
}

func classNames(text []rune) string {
	var s []string
	for _, r := range text {
		name := "?"
		lc := ucd.LookupLineBreakClass(r)
		for _, nt := range lineBreakTables {
			if nt.T == lc {
				name = nt.Name
			}
		}
		s = append(s, fmt.Sprintf("U+%04X(%s)", r, name))
	}
	return strings.Join(s, " ")
}

// check compares the segmenter (already Init-ed by the caller, or Init-ed here) with the reference.
func (e *c06env) check(c *c06case, seg *segmenter.Segmenter, doInit bool) {
	r := e.r
	text := c.Text
	r.Eval()
	n := len(text)
	var line []uint8
	var gr, words [][2]int
	var ok bool
	if !r.Guard("C06", c, func() {
		if doInit {
			seg.Init(text)
		}
		line, gr, words, ok = e.observe(c, seg, text)
	}) || !ok {
		return
	}
	hist := ""
	if c.Prev != nil {
		hist = ":after-reuse"
	}
	wantL, rulesL := uaxref.LineRules(text)
	for i := 1; i <= n; i++ {
		if line[i] != wantL[i] {
			lb := "LB"
			key := fmt.Sprintf("C06:line%s:%s:got%d,want%d", hist, rulesL[i], line[i], wantL[i])
			if os.Getenv("C06_FINE") != "" {
				key += ":" + lineDiffKey(text, i, line[i], wantL[i])
			}
			r.Violation(key, c,
				fmt.Sprintf("%s boundary %d of %s: segmenter=%d reference=%d by %s (0 none,1 allowed,2 mandatory) [%s]", lb, i, classNames(text), line[i], wantL[i], rulesL[i], lineDiffKey(text, i, line[i], wantL[i])))
			break
		}
	}
	wantG := uaxref.Grapheme(text)
	gotG := make([]bool, n+1)
	if n > 0 {
		gotG[0] = true
	}
	for _, g := range gr {
		gotG[g[1]] = true
	}
	for i := 1; i <= n; i++ {
		if gotG[i] != wantG[i] {
			r.Violation("C06:grapheme"+hist, c, fmt.Sprintf("grapheme boundary %d of %U: segmenter=%v reference=%v", i, text, gotG[i], wantG[i]))
			break
		}
	}
	// words: boundary-delimited segments starting with a rune of the Word table
	wantW, rulesW := uaxref.WordRules(text)
	var wantWords [][2]int
	start := 0
	for i := 1; i <= n; i++ {
		if wantW[i] {
			if unicode.Is(ucd.Word, text[start]) {
				wantWords = append(wantWords, [2]int{start, i})
			}
			start = i
		}
	}
	if fmt.Sprint(words) != fmt.Sprint(wantWords) {
		// first position where the two segmentations differ, named by the reference rule deciding it
		pos := n
		mark := func(ws [][2]int) map[int]bool {
			m := map[int]bool{}
			for _, w := range ws {
				m[w[0]*2] = true
				m[w[1]*2+1] = true
			}
			return m
		}
		mg, mw := mark(words), mark(wantWords)
		for k := 0; k <= 2*n+1; k++ {
			if mg[k] != mw[k] {
				pos = k / 2
				break
			}
		}
		rule := "WB?"
		if pos <= n && rulesW[pos] != "" {
			rule = rulesW[pos]
		} else if pos == 0 || pos == n {
			rule = "WB1-2"
		}
		r.Violation("C06:word"+hist+":"+rule, c, fmt.Sprintf("words of %U: segmenter=%v reference=%v (reference boundaries %v)", text, words, wantWords, wantW))
	}
	// outcome signature: the three boundary vectors
	var sb strings.Builder
	for i := 1; i < n; i++ {
		sb.WriteByte('0' + wantL[i])
		if wantG[i] {
			sb.WriteByte('g')
		}
		if wantW[i] {
			sb.WriteByte('w')
		}
		sb.WriteByte(',')
	}
	r.OutcomeStr(sb.String(), n >= 2)
	if n >= 3 && r.WantSample() {
		r.Sample(map[string]any{"text": fmt.Sprintf("%U", text), "line": wantL, "grapheme": wantG, "word": wantW})
	}
}

// lineDiffKey names a disagreement by the classes around the boundary (narrow signature).
func lineDiffKey(text []rune, i int, got, want uint8) string {
	name := func(k int) string {
		if k < 0 || k >= len(text) {
			return "-"
		}
		lc := ucd.LookupLineBreakClass(text[k])
		for _, nt := range lineBreakTables {
			if nt.T == lc {
				return nt.Name
			}
		}
		return "?"
	}
	return fmt.Sprintf("%s.%s|%s.%s:got%d,want%d", name(i-2), name(i-1), name(i), name(i+1), got, want)
}

// ---- enumeration --------------------------------------------------------------------------------

type c06part struct {
	name     string
	alphabet func() []rune
	maxLen   map[string]int
}

var c06Parts = []c06part{
	{"line", func() []rune { return c06Alphas().line }, map[string]int{"quick": 4, "thorough": 5}},
	{"gr", func() []rune { return c06Alphas().gr }, map[string]int{"quick": 5, "thorough": 6}},
	{"word", func() []rune { return c06Alphas().word }, map[string]int{"quick": 4, "thorough": 5}},
	{"joint", func() []rune { return c06Alphas().joint }, map[string]int{"quick": 2, "thorough": 3}},
}

const c06ShardsPerPart = 32

func c06Shards(tier string) []string {
	var s []string
	for _, p := range c06Parts {
		for i := 0; i < c06ShardsPerPart; i++ {
			s = append(s, fmt.Sprintf("%s:%d", p.name, i))
		}
	}
	for i := 0; i < 16; i++ {
		s = append(s, fmt.Sprintf("reuse:%d", i))
	}
	return s
}

func c06Run(tier, shard string, r *mc.Reporter) {
	e := &c06env{r: r}
	parts := strings.SplitN(shard, ":", 2)
	sh, _ := strconv.Atoi(parts[1])
	if parts[0] == "reuse" {
		c06Reuse(e, tier, sh)
		return
	}
	for _, p := range c06Parts {
		if p.name != parts[0] {
			continue
		}
		alpha := p.alphabet()
		r.Max("max_alphabet_"+p.name, int64(len(alpha)))
		// one long-lived Segmenter per shard: every string is also a reuse after its predecessor
		enumTexts(alpha, 0, p.maxLen[tier], func(idx int, t []rune) bool {
			if idx%c06ShardsPerPart != sh {
				return true
			}
			if idx&0xfff == 0 && r.Expired() {
				r.Incomplete(fmt.Sprintf("deadline in part %s at string #%d", p.name, idx))
				return false
			}
			e.check(&c06case{Text: t}, &e.seg, true)
			return true
		})
	}
}

// c06Reuse: all ordered pairs (A,B) of short strings over a reduced joint alphabet on one Segmenter,
// with the iterators of A drained none / partly / fully before Init(B).
func c06Reuse(e *c06env, tier string, sh int) {
	// reduced alphabet: one rune per line class plus the literals and RI / ExtPict / ZWJ
	alpha := append([]rune(nil), c06Alphas().line...)
	maxLen := 2
	if tier == "thorough" {
		maxLen = 2
	}
	var texts [][]rune
	enumTexts(alpha, 0, maxLen, func(idx int, t []rune) bool { texts = append(texts, t); return true })
	// long strings that force buffer growth, then short ones
	long := []rune{}
	for i := 0; i < 40; i++ {
		long = append(long, alpha[i%len(alpha)])
	}
	texts = append(texts, long)
	k := 0
	for ai, a := range texts {
		if len(a) > 1 && tier == "quick" && ai%8 != 0 && len(a) < 40 {
			continue // quick: A ranges over all strings of length <= 1, every 8th of length 2, and the long one
		}
		for _, b := range texts {
			k++
			if k%16 != sh {
				continue
			}
			if e.r.Expired() {
				e.r.Incomplete("deadline in reuse pairs")
				return
			}
			for drain := 0; drain < 3; drain++ {
				var seg segmenter.Segmenter
				ok := e.r.Guard("C06", &c06case{Text: a}, func() {
					seg.Init(a)
					li, gi, wi := seg.LineIterator(), seg.GraphemeIterator(), seg.WordIterator()
					switch drain {
					case 1:
						li.Next()
						gi.Next()
						wi.Next()
					case 2:
						for li.Next() {
						}
						for gi.Next() {
						}
						for wi.Next() {
						}
					}
				})
				if !ok {
					break
				}
				e.check(&c06case{Text: b, Prev: a, Drain: drain}, &seg, true)
			}
		}
	}
}

func c06Replay(raw json.RawMessage, r *mc.Reporter) {
	var c c06case
	if json.Unmarshal(raw, &c) != nil {
		return
	}
	e := &c06env{r: r}
	var seg segmenter.Segmenter
	if c.Prev != nil {
		seg.Init(c.Prev)
		li, gi, wi := seg.LineIterator(), seg.GraphemeIterator(), seg.WordIterator()
		if c.Drain == 1 {
			li.Next()
			gi.Next()
			wi.Next()
		} else if c.Drain == 2 {
			for li.Next() {
			}
			for gi.Next() {
			}
			for wi.Next() {
			}
		}
	}
	e.check(&c, &seg, true)
	fmt.Printf("text %s\n reference line=%v\n grapheme=%v\n word=%v\n", classNames(c.Text), uaxref.Line(c.Text), uaxref.Grapheme(c.Text), uaxref.Word(c.Text))
}

func init() {
	Register(&mc.Check{
		ID: "C06", Level: "exploration",
		Rule: "rule-class alphabets computed from the library's lookups (one rune per signature: line class + East Asian width for OP/CP + ExtPict&Cn + Mn/Mc for SA + literal code points the rules compare; likewise for grapheme and word classes; joint = product signature); " +
			"every string over each alphabet up to the tier's length through one long-lived Segmenter per shard, compared boundary by boundary (line incl. mandatory, grapheme, word segments) with a declarative reference evaluation of the UAX#14/#29 rule lists; " +
			"plus all ordered pairs (A,B) of strings of length <= 2 over the line alphabet on one Segmenter with A's iterators drained none/partly/fully. Non-trivial = length >= 2; distinct = distinct boundary vectors",
		Assumptions: []string{"the reference reads characters through the library's class lookups (the property is 'rules applied to the library's character classes'; tables are decided by C20)",
			"UAX#14 with the Example-7 numeric tailoring of LB25/LB13; UAX#29 without GB9c (no Indic_Conjunct_Break data in the package)"},
		Shards: c06Shards, Run: c06Run, Replay: c06Replay,
		Bounds: map[string]string{"quick": "line alphabet^<=4, grapheme^<=5, word^<=4, joint^<=2, reuse pairs", "thorough": "line^<=5, grapheme^<=6, word^<=5, joint^<=3, reuse pairs"},
	})
}
