package checks

import (
	"bytes"
	"compress/zlib"
	"encoding/binary"
	"sort"

	ot "github.com/go-text/typesetting/font/opentype"
)

// c16ShortWOFF wraps the tables of an sfnt font in a WOFF container; every table is stored as it is except 'name', which
// is compressed and whose stream stops at the start of the string storage although the directory announces the whole
// table (a truncated download): a damaged file among the fonts of the file-system histories. Whatever the scanner makes
// of it (reject the file, or index it with an empty family), a refresh must make the same of it as a scan from scratch.
func c16ShortWOFF(sfnt []byte) []byte {
	ld, err := ot.NewLoader(bytes.NewReader(sfnt))
	if err != nil {
		return nil
	}
	type table struct {
		tag  ot.Tag
		data []byte
		orig int
	}
	var tbs []table
	maxOther := 0
	tags := ld.Tables()
	sort.Slice(tags, func(i, j int) bool { return tags[i] < tags[j] })
	nameTag := ot.MustNewTag("name")
	for _, tag := range tags {
		if tag == nameTag {
			continue
		}
		raw, err := ld.RawTable(tag)
		if err != nil {
			return nil
		}
		if (tag == ot.MustNewTag("OS/2") || tag == ot.MustNewTag("cmap") || tag == ot.MustNewTag("head")) && len(raw) > maxOther {
			maxOther = len(raw) // the other tables the scanner reads
		}
		tbs = append(tbs, table{tag, raw, len(raw)})
	}
	nameT, err := ld.RawTable(nameTag)
	if err != nil || len(nameT) < 6 {
		return nil
	}
	stringOffset := int(binary.BigEndian.Uint16(nameT[4:]))
	if stringOffset > len(nameT) {
		return nil
	}
	var z bytes.Buffer
	zw := zlib.NewWriter(&z)
	zw.Write(nameT[:stringOffset])
	zw.Close()
	// the announced length is the one of the whole table, and at least more than the other tables the scanner reads
	// (so that the scanner's table buffer is resized, or not, depending on what was read before this file)
	orig := len(nameT)
	if orig <= maxOther {
		orig = maxOther + 4
	}
	if z.Len() >= orig {
		return nil
	}
	tbs = append(tbs, table{nameTag, z.Bytes(), orig})
	sort.Slice(tbs, func(i, j int) bool { return tbs[i].tag < tbs[j].tag })
	header := make([]byte, 44)
	copy(header, "wOFF")
	copy(header[4:8], sfnt[:4])
	binary.BigEndian.PutUint16(header[12:], uint16(len(tbs)))
	dir := make([]byte, 20*len(tbs))
	var body []byte
	start := len(header) + len(dir)
	for i, tb := range tbs {
		for (start+len(body))%4 != 0 {
			body = append(body, 0)
		}
		e := dir[20*i:]
		binary.BigEndian.PutUint32(e[0:], uint32(tb.tag))
		binary.BigEndian.PutUint32(e[4:], uint32(start+len(body)))
		binary.BigEndian.PutUint32(e[8:], uint32(len(tb.data)))
		binary.BigEndian.PutUint32(e[12:], uint32(tb.orig))
		body = append(body, tb.data...)
	}
	out := append(append(header, dir...), body...)
	binary.BigEndian.PutUint32(out[8:], uint32(len(out)))
	return out
}
