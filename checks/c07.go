package checks

// C07 — Itemization partitions the text into uniform runs.

import (
	"encoding/json"
	"fmt"
	"reflect"
	"strconv"
	"unicode"

	"github.com/go-text/typesetting/di"
	"github.com/go-text/typesetting/font"
	ot "github.com/go-text/typesetting/font/opentype"
	"github.com/go-text/typesetting/harfbuzz"
	"github.com/go-text/typesetting/language"
	"github.com/go-text/typesetting/shaping"
	ucd "github.com/go-text/typesetting/unicodedata"
	"golang.org/x/text/unicode/bidi"

	"verif/mc"
	"verif/ref/bidiref"
)

var c07Alphabet = []rune{'a', 0x03B1, 0x05D0, 0x0628, '1', 0x0661, ' ', '!', '(', ')', '[', ']', 0x00AB, 0x0301,
	0x4E2D, 0x3042, 0x30FC, 0x200D, '\n', 0x2029, 0x202B, 0x2067, 0x2069, 0x1F600}

type c07case struct {
	Text    []rune   `json:"text"`
	Start   int      `json:"start"`
	End     int      `json:"end"`
	Dir     int      `json:"dir"`  // 0 LTR 1 RTL 2 TTB 3 TTB upright 4 TTB sideways 5 BTT
	Lang    string   `json:"lang"` // "" fr ar zh-hant xx
	Fontmap int      `json:"fontmap"`
	Prev    *c07case `json:"prev,omitempty"`
}

func c07Dir(k int) di.Direction {
	switch k {
	case 0:
		return di.DirectionLTR
	case 1:
		return di.DirectionRTL
	case 2:
		return di.DirectionTTB
	case 3:
		d := di.DirectionTTB
		d.SetSideways(false)
		return d
	case 4:
		d := di.DirectionTTB
		d.SetSideways(true)
		return d
	}
	return di.DirectionBTT
}

var c07Closers = map[rune]rune{')': '(', ']': '[', 0x00BB: 0x00AB}
var c07KnownNeutral = map[rune]bool{' ': true, '!': true, '(': true, '[': true, 0x00AB: true, '1': true, 0x0301: true, 0x200D: true}

var c07Faces = []*font.Face{{}, {}, {}}

// fontmaps: 0 constant, 1 by script (Latin/Greek/neutral -> A, others -> B), 2 by rune parity, 3 script aware (recording)
type c07Fontmap struct {
	kind    int
	scripts []language.Script // SetScript calls
	asked   []askedRune       // ResolveFace calls with the script told before
	cur     language.Script
	told    bool
}

type askedRune struct {
	r      rune
	script language.Script
	told   bool
}

func (f *c07Fontmap) ResolveFace(r rune) *font.Face {
	f.asked = append(f.asked, askedRune{r, f.cur, f.told})
	return c07Resolve(f.kind, r, f.cur)
}

func c07Resolve(kind int, r rune, cur language.Script) *font.Face {
	switch kind {
	case 1:
		switch language.LookupScript(r) {
		case language.Latin, language.Greek, language.Common, language.Inherited:
			return c07Faces[0]
		}
		return c07Faces[1]
	case 2:
		return c07Faces[int(r)%2]
	case 3:
		if cur == language.Hebrew || cur == language.Arabic {
			return c07Faces[1]
		}
		return c07Faces[0]
	}
	return c07Faces[0]
}

type c07ScriptFontmap struct{ c07Fontmap }

func (f *c07ScriptFontmap) SetScript(s language.Script) {
	f.scripts = append(f.scripts, s)
	f.cur = s
	f.told = true
}

// re-implementation of the documented rule of ignoreFaceChange
func c07Ignorable(r rune) bool {
	return unicode.Is(unicode.Cc, r) || unicode.Is(unicode.Cs, r) || unicode.Is(unicode.Zl, r) || unicode.Is(unicode.Zp, r) ||
		(unicode.Is(unicode.Zs, r) && r != 0x1680) || harfbuzz.IsDefaultIgnorable(r)
}

type c07env struct {
	r   *mc.Reporter
	seg shaping.Segmenter
}

var c07Features = []shaping.FontFeature{{Tag: ot.MustNewTag("liga"), Value: 0}}

func (e *c07env) split(seg *shaping.Segmenter, c *c07case) (out []shaping.Input, fm *c07Fontmap, in shaping.Input, ok bool) {
	in = shaping.Input{Text: c.Text, RunStart: c.Start, RunEnd: c.End, Direction: c07Dir(c.Dir), Size: 16 << 6,
		Language: language.NewLanguage(c.Lang), FontFeatures: c07Features}
	var fmi shaping.Fontmap
	if c.Fontmap == 3 {
		sf := &c07ScriptFontmap{c07Fontmap{kind: 3}}
		fm = &sf.c07Fontmap
		fmi = sf
	} else {
		fm = &c07Fontmap{kind: c.Fontmap}
		fmi = fm
	}
	ok = e.r.Guard("C07", c, func() { out = seg.Split(in, fmi) })
	return
}

func (e *c07env) check(c *c07case, seg *shaping.Segmenter) {
	r := e.r
	r.Eval()
	text := append([]rune(nil), c.Text...)
	out, fm, in, ok := e.split(seg, c)
	if !ok {
		return
	}
	for i := range text {
		if text[i] != c.Text[i] {
			r.Violation("C07:text-modified", c, "Split modified the caller's text")
			return
		}
	}
	hist := ""
	if c.Prev != nil {
		hist = ":after-reuse"
	}
	// (1) partition
	if c.Start >= c.End {
		if len(out) != 1 && len(out) != 0 {
			r.Violation("C07:partition:empty-range"+hist, c, fmt.Sprintf("empty range gives %d runs", len(out)))
		}
		r.Outcome(0, false)
		return
	}
	pos := c.Start
	for i, run := range out {
		if run.RunStart != pos || run.RunEnd <= run.RunStart {
			r.Violation("C07:partition"+hist, c, fmt.Sprintf("run %d is [%d,%d) after position %d (requested [%d,%d))", i, run.RunStart, run.RunEnd, pos, c.Start, c.End))
			return
		}
		pos = run.RunEnd
		if len(run.Text) != len(c.Text) || (len(run.Text) > 0 && &run.Text[0] != &c.Text[0]) {
			r.Violation("C07:text-field"+hist, c, fmt.Sprintf("run %d does not carry the input text", i))
		}
		if run.Size != in.Size || len(run.FontFeatures) != 1 || &run.FontFeatures[0] != &c07Features[0] {
			r.Violation("C07:size-features"+hist, c, fmt.Sprintf("run %d changed Size/FontFeatures", i))
		}
		if run.Face == nil {
			r.Violation("C07:nil-face"+hist, c, fmt.Sprintf("run %d has no face", i))
		}
	}
	if pos != c.End {
		r.Violation("C07:partition"+hist, c, fmt.Sprintf("runs end at %d, requested range ends at %d", pos, c.End))
		return
	}
	// (2) bidi: reference levels paragraph by paragraph
	sub := c.Text[c.Start:c.End]
	levels := make([]int8, len(sub))
	paraOf := make([]int, len(sub))
	defLevel := int8(-1)
	if in.Direction.Progression() == di.TowardTopLeft {
		defLevel = 1
	}
	for s, para := 0, 0; s < len(sub); para++ {
		e2 := s
		for e2 < len(sub) {
			p, _ := bidi.LookupRune(sub[e2])
			e2++
			if p.Class() == bidi.B {
				break
			}
		}
		lv, pl := bidiref.Levels(sub[s:e2], defLevel)
		for k := s; k < e2; k++ {
			if k-s < len(lv) {
				levels[k] = lv[k-s]
			} else {
				levels[k] = pl // the separator takes the paragraph level
			}
			paraOf[k] = para
		}
		s = e2
	}
	for i, run := range out {
		rtl := run.Direction.Progression() == di.TowardTopLeft
		for k := run.RunStart; k < run.RunEnd; k++ {
			if p, _ := bidi.LookupRune(c.Text[k]); p.Class() == bidi.B {
				continue // a paragraph separator gets its level from rule L1 (line level); either parity is accepted
			}
			if (levels[k-c.Start]%2 == 1) != rtl {
				key := "C07:bidi-parity"
				if paraOf[k-c.Start] > 0 {
					key = "C07:bidi-parity:after-paragraph-separator"
				}
				r.Violation(key+hist, c, fmt.Sprintf("run %d [%d,%d) is %v but rune %d (U+%04X) has embedding level %d (levels %v)", i, run.RunStart, run.RunEnd, run.Direction.Progression(), k, c.Text[k], levels[k-c.Start], levels))
				break
			}
		}
		// axis and fixed orientation preserved
		if run.Direction.Axis() != in.Direction.Axis() {
			r.Violation("C07:axis"+hist, c, fmt.Sprintf("run %d changed the axis", i))
		}
	}
	// (3) scripts
	strong := map[language.Script]bool{}
	for _, ru := range sub {
		if s := language.LookupScript(ru); s.Strong() {
			strong[s] = true
		}
	}
	for i, run := range out {
		hasStrong := false
		for k := run.RunStart; k < run.RunEnd; k++ {
			s := language.LookupScript(c.Text[k])
			if !s.Strong() {
				continue
			}
			hasStrong = true
			if s != run.Script {
				r.Violation("C07:script"+hist, c, fmt.Sprintf("run %d has script %s but holds U+%04X of script %s", i, run.Script, c.Text[k], s))
				break
			}
		}
		if !hasStrong && run.Script != language.Common && !strong[run.Script] {
			r.Violation("C07:script-invented"+hist, c, fmt.Sprintf("run %d has script %s which no rune of the text has", i, run.Script))
		}
		// a run made of neutral characters only takes its script from its context: the neighbouring run
		// (when split by another criterion) or, for a run starting at a closing bracket, a still unmatched opening bracket
		if !hasStrong && run.Script.Strong() && strong[run.Script] {
			justified := (i > 0 && out[i-1].Script == run.Script) || (i+1 < len(out) && out[i+1].Script == run.Script)
			unknown := false
			for q := run.RunStart; q < run.RunEnd && !justified; q++ {
				opener, isCloser := c07Closers[c.Text[q]]
				if !isCloser {
					if !c07KnownNeutral[c.Text[q]] {
						unknown = true // delimiters outside the harness table are not judged
					}
					continue
				}
				avail := 0
				withScript := false
				for k := c.Start; k < q; k++ {
					switch c.Text[k] {
					case opener:
						avail++
						for _, o := range out {
							if o.RunStart <= k && k < o.RunEnd {
								if o.Script == run.Script {
									withScript = true
								} else if o.Script == language.Common {
									// the opening bracket sits in a run without strong character (e.g. alone in its bidi run):
									// the pair is resolved by the first strong character following it
									for k2 := k + 1; k2 < c.End; k2++ {
										if s2 := language.LookupScript(c.Text[k2]); s2.Strong() {
											withScript = withScript || s2 == run.Script
											break
										}
									}
								}
							}
						}
					case c.Text[q]:
						if avail > 0 {
							avail--
						}
					}
				}
				justified = avail > 0 && withScript
			}
			justified = justified || unknown
			if !justified {
				r.Violation("C07:script-of-neutral-run-unjustified"+hist, c, fmt.Sprintf("run %d [%d,%d) holds only neutral characters but has script %s, which neither a neighbouring run nor an unmatched opening bracket provides", i, run.RunStart, run.RunEnd, run.Script))
			}
		}
		if hasStrong && run.Script == language.Common {
			r.Violation("C07:script"+hist, c, fmt.Sprintf("run %d holds a strong script but is Common", i))
		}
	}
	// (4) orientation
	if in.Direction.IsVertical() {
		for i, run := range out {
			if in.Direction.HasVerticalOrientation() {
				if run.Direction.IsSideways() != in.Direction.IsSideways() || !run.Direction.HasVerticalOrientation() {
					r.Violation("C07:orientation-fixed"+hist, c, fmt.Sprintf("run %d does not keep the fixed orientation", i))
				}
				continue
			}
			if !run.Direction.HasVerticalOrientation() {
				r.Violation("C07:orientation-unresolved"+hist, c, fmt.Sprintf("run %d has no orientation", i))
				continue
			}
			vo := ucd.LookupVerticalOrientation(run.Script)
			for k := run.RunStart; k < run.RunEnd; k++ {
				if vo.Orientation(c.Text[k]) != run.Direction.IsSideways() {
					r.Violation("C07:orientation-mixed"+hist, c, fmt.Sprintf("run %d sideways=%v but U+%04X has the other orientation in script %s", i, run.Direction.IsSideways(), c.Text[k], run.Script))
					break
				}
			}
		}
	}
	// (5) faces
	for i, run := range out {
		for k := run.RunStart; k < run.RunEnd; k++ {
			ru := c.Text[k]
			if c07Ignorable(ru) {
				continue
			}
			if want := c07Resolve(c.Fontmap, ru, run.Script); want != run.Face {
				r.Violation("C07:face"+hist, c, fmt.Sprintf("run %d has another face than the one the Fontmap resolves for U+%04X (script %s)", i, ru, run.Script))
				break
			}
		}
	}
	if c.Fontmap == 3 {
		for _, a := range fm.asked {
			if !a.told {
				r.Violation("C07:script-hint-missing"+hist, c, fmt.Sprintf("ResolveFace(U+%04X) called before any SetScript", a.r))
				break
			}
		}
		// every run's script was announced
		for i, run := range out {
			found := false
			for _, s := range fm.scripts {
				if s == run.Script {
					found = true
				}
			}
			if !found {
				r.Violation("C07:script-hint-missing"+hist, c, fmt.Sprintf("run %d has script %s which was never passed to SetScript (%v)", i, run.Script, fm.scripts))
			}
		}
	}
	// (6) language compatible with the script
	for i, run := range out {
		id, known := language.NewLangID(run.Language)
		inID, inKnown := language.NewLangID(in.Language)
		if in.Language == "" {
			inID, inKnown = language.NewLangID("en")
		}
		if !inKnown {
			if run.Language != in.Language {
				r.Violation("C07:language"+hist, c, fmt.Sprintf("run %d: unknown input language %q replaced by %q", i, in.Language, run.Language))
			}
			continue
		}
		if !known {
			r.Violation("C07:language"+hist, c, fmt.Sprintf("run %d: language %q is unknown although the input language is known", i, run.Language))
			continue
		}
		if !id.UseScript(run.Script) && language.ScriptToLang[run.Script] != 0 {
			r.Violation("C07:language"+hist, c, fmt.Sprintf("run %d: language %q is not written in %s although %q is available", i, run.Language, run.Script, language.ScriptToLang[run.Script].Language()))
		}
		if inID.UseScript(run.Script) && id != inID {
			r.Violation("C07:language"+hist, c, fmt.Sprintf("run %d: input language %q is written in %s but was replaced by %q", i, in.Language, run.Script, run.Language))
		}
	}
	sig := fmt.Sprintf("d%d f%d n=%d:", c.Dir, c.Fontmap, len(out))
	for _, run := range out {
		sig += fmt.Sprintf("%d%s,", run.Direction, run.Script)
	}
	r.OutcomeStr(sig, len(out) >= 2)
	if len(out) >= 3 && r.WantSample() {
		r.Sample(c)
	}
}

const c07NShards = 64

func c07ShardList(tier string) []string {
	var s []string
	for i := 0; i < c07NShards; i++ {
		s = append(s, strconv.Itoa(i))
	}
	s = append(s, "reuse")
	return s
}

func c07Run(tier, shard string, r *mc.Reporter) {
	e := &c07env{r: r}
	if shard == "reuse" {
		c07Reuse(e)
		return
	}
	sh, _ := strconv.Atoi(shard)
	maxLen := 4
	langs := []string{"fr", "ar", "zh-hant", "xx"}
	enumTexts(c07Alphabet, 0, maxLen, func(idx int, t []rune) bool {
		if idx%c07NShards != sh {
			return true
		}
		if r.Expired() {
			r.Incomplete(fmt.Sprintf("deadline at text #%d", idx))
			return false
		}
		n := len(t)
		for s := 0; s <= n; s++ {
			for en := s; en <= n; en++ {
				if s == en && s > 0 {
					continue
				}
				for d := 0; d < 6; d++ {
					e.check(&c07case{Text: t, Start: s, End: en, Dir: d}, &e.seg)
				}
				for _, l := range langs {
					e.check(&c07case{Text: t, Start: s, End: en, Dir: 0, Lang: l}, &e.seg)
					e.check(&c07case{Text: t, Start: s, End: en, Dir: 1, Lang: l}, &e.seg)
				}
				for fmk := 1; fmk <= 3; fmk++ {
					e.check(&c07case{Text: t, Start: s, End: en, Dir: 0, Fontmap: fmk}, &e.seg)
					e.check(&c07case{Text: t, Start: s, End: en, Dir: 2, Fontmap: fmk}, &e.seg)
				}
			}
		}
		return true
	})
	// paragraph separator pass: every character of bidi class B between two short strings of strong letters and digits
	if sh == 0 {
		strong := []rune{'a', 0x05D0, 0x0628, '1'}
		var parts [][]rune
		enumTexts(strong, 1, 2, func(_ int, t []rune) bool { parts = append(parts, t); return true })
		for _, sep := range []rune{0x0A, 0x0D, 0x1C, 0x1D, 0x1E, 0x85, 0x2029} {
			for _, x := range parts {
				for _, y := range parts {
					t := append(append(append([]rune{}, x...), sep), y...)
					for d := 0; d < 6; d++ {
						e.check(&c07case{Text: t, Start: 0, End: len(t), Dir: d}, &e.seg)
					}
					e.check(&c07case{Text: t, Start: 1, End: len(t), Dir: 0}, &e.seg)
				}
			}
		}
	}
	// every paired bracket of Unicode (Bidi_Paired_Bracket_Type, read from x/text) between letters of two scripts:
	// "matched brackets follow their context": the closing bracket is in a run of the script of the opening one
	if sh == 0 {
		for o := rune(0x20); o < 0x30000; o++ {
			po, _ := bidi.LookupRune(o)
			if !po.IsBracket() || !po.IsOpeningBracket() || (0x298D <= o && o <= 0x2990) {
				// U+298D..U+2990: the paired bracket is not the mirrored character (BidiBrackets.txt against BidiMirroring.txt)
				continue
			}
			cl, _ := ucd.LookupMirrorChar(o)
			if pc, _ := bidi.LookupRune(cl); cl == o || !pc.IsBracket() || pc.IsOpeningBracket() {
				continue
			}
			if language.LookupScript(o).Strong() || language.LookupScript(cl).Strong() {
				continue
			}
			for _, t := range [][]rune{{'a', o, 0x03B2, cl, 'b'}, {0x03B1, o, 'a', cl, 0x03B2}} {
				c := &c07case{Text: t, Start: 0, End: len(t), Dir: 0}
				e.check(c, &e.seg)
				out, _, _, ok := e.split(&e.seg, c)
				if !ok {
					continue
				}
				scriptAt := func(k int) language.Script {
					for _, run := range out {
						if run.RunStart <= k && k < run.RunEnd {
							return run.Script
						}
					}
					return language.Unknown
				}
				r.Count("unicode_bracket_pairs_checked", 1)
				if scriptAt(3) != scriptAt(1) {
					r.Violation(fmt.Sprintf("C07:matched-bracket-script:U+%04X", o), c, fmt.Sprintf("the closing bracket U+%04X is in a run of script %s, its opening bracket U+%04X in a run of script %s", cl, scriptAt(3), o, scriptAt(1)))
				}
			}
		}
	}
	// bracket pass: longer texts over letters of three scripts, two bracket pairs and space (whole range)
	bl := 6
	if tier == "thorough" {
		bl = 7
	}
	enumTexts([]rune{'a', 0x03B1, 0x05D0, '(', ')', '[', ']', ' '}, maxLen+1, bl, func(idx int, t []rune) bool {
		if idx%c07NShards != sh {
			return true
		}
		if r.Expired() {
			r.Incomplete(fmt.Sprintf("deadline in bracket pass at text #%d", idx))
			return false
		}
		for d := 0; d < 2; d++ {
			e.check(&c07case{Text: t, Start: 0, End: len(t), Dir: d}, &e.seg)
			e.check(&c07case{Text: t, Start: 0, End: len(t), Dir: d, Fontmap: 2}, &e.seg)
		}
		return true
	})
}

// every ordered pair of inputs of length <= 2 on one Segmenter vs a fresh one (deep equality)
func c07Reuse(e *c07env) {
	var cases []*c07case
	enumTexts(c07Alphabet, 1, 2, func(idx int, t []rune) bool {
		for d := 0; d < 3; d++ {
			cases = append(cases, &c07case{Text: t, Start: 0, End: len(t), Dir: d})
		}
		return true
	})
	// A ranges over a spread subset, B over everything
	for ai := 0; ai < len(cases); ai += 37 {
		a := cases[ai]
		for _, b := range cases {
			if e.r.Expired() {
				e.r.Incomplete("deadline in reuse pairs")
				return
			}
			var seg, fresh shaping.Segmenter
			if _, _, _, ok := e.split(&seg, a); !ok {
				break
			}
			cb := *b
			cb.Prev = a
			got, _, _, ok1 := e.split(&seg, &cb)
			want, _, _, ok2 := e.split(&fresh, &cb)
			e.r.Eval()
			if ok1 && ok2 && !reflect.DeepEqual(got, want) {
				e.r.Violation("C07:depends-on-history", &cb, fmt.Sprintf("Split after %q differs from Split on a fresh Segmenter", string(a.Text)))
			}
		}
	}
}

func c07Replay(raw json.RawMessage, r *mc.Reporter) {
	var c c07case
	if json.Unmarshal(raw, &c) != nil {
		return
	}
	e := &c07env{r: r}
	var seg shaping.Segmenter
	if c.Prev != nil {
		e.split(&seg, c.Prev)
	}
	e.check(&c, &seg)
	out, _, _, _ := e.split(&seg, &c)
	for i, run := range out {
		fmt.Printf(" run %d [%d,%d) dir=%d script=%s lang=%q face=%p\n", i, run.RunStart, run.RunEnd, run.Direction, run.Script, run.Language, run.Face)
	}
}

func init() {
	Register(&mc.Check{
		ID: "C07", Level: "exploration",
		Rule: "every text over a 24-rune alphabet (Latin, Greek, Hebrew, Arabic letters, European and Arabic-Indic digits, space, punctuation, 3 bracket pairs, combining mark, Han, Hiragana, prolonged sound mark, ZWJ, LF, PS, RLE, RLI, PDI, emoji) up to the tier's length x every sub-range x {LTR,RTL,TTB,TTB upright,TTB sideways,BTT}; " +
			"languages {fr,ar,zh-hant,xx} x {LTR,RTL}; Fontmaps {by script, by rune parity, script aware recording} x {LTR,TTB}; one long-lived Segmenter per shard; laws: partition, text/size/features identity, bidi parity vs reference levels paragraph by paragraph, script, orientation, face through the Fontmap, language/script compatibility; " +
			"plus ordered reuse pairs vs a fresh Segmenter. Non-trivial = at least 2 runs; distinct = (direction, fontmap, run directions and scripts)",
		Assumptions: []string{"reference embedding levels from the x/text bidi core applied to each paragraph of the requested sub-range, auto paragraph level for LTR/TTB inputs and level 1 for RTL/BTT (the convention of the library's own bidi call)",
			"neutral characters: only 'no invented script' is required (the run script is Common or the script of some strong rune of the text)"},
		Shards: c07ShardList, Run: c07Run, Replay: c07Replay,
		Bounds: map[string]string{"quick": "texts of length <= 4 over 24 runes; every paragraph separator (bidi class B) between strings of length <= 2 over 4 strong runes; bracket alphabet (8 runes) length 5..6; every Unicode bracket pair (118 texts)", "thorough": "texts of length <= 4 over 24 runes; bracket alphabet length 5..7"},
	})
}
