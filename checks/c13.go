package checks

// C13 — Reusable objects never leak state between uses.
// Explicit exploration of every operation history up to a depth on the real objects; every call's
// result is compared with the same call on freshly constructed objects, and results returned
// earlier are re-compared with their deep copies until their documented invalidation point.

import (
	"bytes"
	"encoding/json"
	"fmt"
	"reflect"
	"strings"

	"github.com/go-text/typesetting/di"
	"github.com/go-text/typesetting/font"
	ot "github.com/go-text/typesetting/font/opentype"
	"github.com/go-text/typesetting/harfbuzz"
	"github.com/go-text/typesetting/language"
	"github.com/go-text/typesetting/segmenter"
	"github.com/go-text/typesetting/shaping"
	"golang.org/x/image/math/fixed"

	"verif/corpus"
	"verif/mc"
)

type c13case struct {
	Object string `json:"object"`
	Ops    []int  `json:"ops"`
	Names  string `json:"names,omitempty"`
}

// a history machine: run(ops) executes the history on fresh objects and reports violations
type c13machine struct {
	name  string
	nops  int
	opStr func(op int) string
	run   func(r *mc.Reporter, cs *c13case, ops []int)
}

var c13FontCache = map[string]*font.Font{}

func c13Font(name string) *font.Font {
	if f, ok := c13FontCache[name]; ok {
		return f
	}
	cf := corpus.Get(name)
	if cf == nil {
		panic("corpus font missing: " + name)
	}
	ld, err := ot.NewLoader(bytes.NewReader(cf.Data))
	if err != nil {
		panic(err)
	}
	f, err := font.NewFont(ld)
	if err != nil {
		panic(err)
	}
	c13FontCache[name] = f
	return f
}

const (
	c13VF     = "ot/toys/CFF2-VF.otf"              // wght 200..900 (default 400), FeatureVariations: "$" is another glyph when heavy
	c13VF2    = "ot/common/SourceSans-VF-HVAR.ttf" // gvar + HVAR
	c13Static = "ot/common/Roboto-BoldItalic.ttf"
	c13Bitmap = "ot/toys/CBLC1.ttf"
)

func outputImage(o shaping.Output, faceName string) string {
	var sb strings.Builder
	fmt.Fprintf(&sb, "adv=%d size=%d dir=%d runes=%v lb=%v gb=%v face=%s vis=%d\n", o.Advance, o.Size, o.Direction, o.Runes, o.LineBounds, o.GlyphBounds, faceName, o.VisualIndex)
	for _, g := range o.Glyphs {
		fmt.Fprintf(&sb, " %+v\n", g)
	}
	return sb.String()
}

// ---- (A) HarfbuzzShaper ----------------------------------------------------------------------------

type c13ShapeIn struct {
	face  int // 0: VF default, 1: second face of the same Font (heavy), 2: static font, 3: VF2, 4: face 0 again (same Face object)
	text  string
	size  fixed.Int26_6
	dir   di.Direction
	feats []shaping.FontFeature
}

var c13ShapeInputs = []c13ShapeIn{
	{0, "$AT", 16 << 6, di.DirectionLTR, nil},
	{1, "$AT", 16 << 6, di.DirectionLTR, nil},
	{2, "fi a", 16 << 6, di.DirectionLTR, nil},
	{2, "fi a", 32<<6 + 32, di.DirectionRTL, []shaping.FontFeature{{Tag: ot.MustNewTag("liga"), Value: 0}}},
	{3, "AVa", 16 << 6, di.DirectionLTR, nil},
	{0, "$", 16 << 6, di.DirectionTTB, nil},
	{2, "fi a", 16 << 6, di.DirectionLTR, []shaping.FontFeature{{Tag: ot.MustNewTag("liga"), Value: 0}, {Tag: ot.MustNewTag("kern"), Value: 0}}},
	// same length as another feature list, other value (the shaper reuses one backing array for its features)
	{2, "fi a", 32<<6 + 32, di.DirectionRTL, []shaping.FontFeature{{Tag: ot.MustNewTag("liga"), Value: 1}}},
	{2, "fi a", 16 << 6, di.DirectionLTR, []shaping.FontFeature{{Tag: ot.MustNewTag("liga"), Value: 0}, {Tag: ot.MustNewTag("smcp"), Value: 1}}},
}

type c13Faces struct {
	faces [4]*font.Face
	heavy [4]bool // face i currently carries the heavy variations
}

var c13Heavy = []font.Variation{{Tag: ot.MustNewTag("wght"), Value: 900}}

func newC13Faces() *c13Faces {
	f := &c13Faces{}
	f.faces[0] = font.NewFace(c13Font(c13VF))
	f.faces[1] = font.NewFace(c13Font(c13VF))
	f.faces[1].SetVariations(c13Heavy)
	f.heavy[1] = true
	f.faces[2] = font.NewFace(c13Font(c13Static))
	f.faces[3] = font.NewFace(c13Font(c13VF2))
	return f
}

func (f *c13Faces) input(i int) (shaping.Input, string) {
	in := c13ShapeInputs[i]
	t := []rune(in.text)
	script := language.Latin
	return shaping.Input{Text: t, RunStart: 0, RunEnd: len(t), Direction: in.dir, Face: f.faces[in.face], Size: in.size, Script: script, Language: "en", FontFeatures: in.feats},
		fmt.Sprintf("face%d", in.face)
}

func c13Shaper() *c13machine {
	nin := len(c13ShapeInputs)
	// ops: 0..nin-1 Shape(i); nin..nin+2 SetFontCacheSize(0,1,2); nin+3 face0.SetVariations(heavy); nin+4 face0.SetVariations(nil)
	m := &c13machine{name: "HarfbuzzShaper", nops: nin + 5}
	m.opStr = func(op int) string {
		switch {
		case op < nin:
			in := c13ShapeInputs[op]
			return fmt.Sprintf("Shape(face%d,%q,size %v,dir %d,%d feats)", in.face, in.text, in.size, in.dir, len(in.feats))
		case op < nin+3:
			return fmt.Sprintf("SetFontCacheSize(%d)", op-nin)
		case op == nin+3:
			return "face0.SetVariations(heavy)"
		}
		return "face0.SetVariations(nil)"
	}
	m.run = func(r *mc.Reporter, cs *c13case, ops []int) {
		faces := newC13Faces()
		var sh shaping.HarfbuzzShaper
		type kept struct {
			out  shaping.Output
			img  string
			name string
			op   int
		}
		var keep []kept
		for step, op := range ops {
			switch {
			case op < nin:
				in, fname := faces.input(op)
				out := sh.Shape(in)
				img := outputImage(out, fname)
				keep = append(keep, kept{out, img, fname, op})
				if step == len(ops)-1 {
					// same call on a fresh shaper with fresh faces carrying the same settings
					fresh := newC13Faces()
					if faces.heavy[0] {
						fresh.faces[0].SetVariations(c13Heavy)
					}
					fin, _ := fresh.input(op)
					var fs shaping.HarfbuzzShaper
					want := outputImage(fs.Shape(fin), fname)
					if img != want {
						r.Violation("C13:shaper:differs-from-fresh", cs, fmt.Sprintf("after [%s]: %s gives\n%s\nbut a fresh shaper gives\n%s", cs.Names, m.opStr(op), mc.Trunc(img, 500), mc.Trunc(want, 500)))
					}
				}
			case op < nin+3:
				sh.SetFontCacheSize(op - nin)
			case op == nin+3:
				faces.faces[0].SetVariations(c13Heavy)
				faces.heavy[0] = true
			default:
				faces.faces[0].SetVariations(nil)
				faces.heavy[0] = false
			}
			// no later call may change an Output returned earlier
			for _, k := range keep {
				if outputImage(k.out, k.name) != k.img {
					r.Violation("C13:shaper:earlier-result-modified", cs, fmt.Sprintf("after [%s]: the Output of %s changed", cs.Names, m.opStr(k.op)))
				}
			}
		}
	}
	return m
}

// ---- (B) harfbuzz.Buffer ----------------------------------------------------------------------------

type c13BufIn struct {
	font  int // 0 VF face default, 1 static
	text  string
	dir   harfbuzz.Direction
	flags harfbuzz.ShappingOptions
	level harfbuzz.ClusterLevel
	feats []harfbuzz.Feature
	start int
	n     int
}

var c13BufInputs = []c13BufIn{
	{1, "fi a", harfbuzz.LeftToRight, 0, harfbuzz.MonotoneGraphemes, nil, 0, 4},
	{1, "fi a", harfbuzz.RightToLeft, harfbuzz.Bot | harfbuzz.Eot, harfbuzz.MonotoneCharacters, nil, 1, 2},
	{1, "fi a", harfbuzz.LeftToRight, harfbuzz.RemoveDefaultIgnorables, harfbuzz.Characters, []harfbuzz.Feature{{Tag: ot.MustNewTag("liga"), Value: 0, Start: harfbuzz.FeatureGlobalStart, End: harfbuzz.FeatureGlobalEnd}}, 0, 4},
	{0, "$AT", harfbuzz.LeftToRight, 0, harfbuzz.MonotoneGraphemes, nil, 0, 3},
	{1, "f­i", harfbuzz.LeftToRight, harfbuzz.PreserveDefaultIgnorables, harfbuzz.MonotoneGraphemes, []harfbuzz.Feature{{Tag: ot.MustNewTag("liga"), Value: 0, Start: 1, End: 2}}, 0, 3},
	{0, "$", harfbuzz.TopToBottom, harfbuzz.ProduceUnsafeToConcat, harfbuzz.MonotoneGraphemes, nil, 0, 1},
}

func c13BufShape(b *harfbuzz.Buffer, fonts [2]*harfbuzz.Font, in c13BufIn, clear bool) string {
	if clear {
		b.Clear()
	}
	b.Props = harfbuzz.SegmentProperties{Direction: in.dir, Script: language.Latin, Language: "en"}
	b.Flags = in.flags
	b.ClusterLevel = in.level
	t := []rune(in.text)
	b.AddRunes(t, in.start, in.n)
	b.Shape(fonts[in.font], in.feats)
	var sb strings.Builder
	for i := range b.Info {
		fmt.Fprintf(&sb, "%d:%d:%x %+v|", b.Info[i].Glyph, b.Info[i].Cluster, b.Info[i].Mask, b.Pos[i])
	}
	return sb.String()
}

func c13Buffer() *c13machine {
	n := len(c13BufInputs)
	m := &c13machine{name: "harfbuzz.Buffer", nops: n}
	m.opStr = func(op int) string {
		in := c13BufInputs[op]
		return fmt.Sprintf("Clear+Shape(font%d,%q[%d:+%d],dir %d,flags %d,level %d,%d feats)", in.font, in.text, in.start, in.n, in.dir, in.flags, in.level, len(in.feats))
	}
	newFonts := func() [2]*harfbuzz.Font {
		return [2]*harfbuzz.Font{harfbuzz.NewFont(font.NewFace(c13Font(c13VF))), harfbuzz.NewFont(font.NewFace(c13Font(c13Static)))}
	}
	m.run = func(r *mc.Reporter, cs *c13case, ops []int) {
		fonts := newFonts()
		b := harfbuzz.NewBuffer()
		for step, op := range ops {
			got := c13BufShape(b, fonts, c13BufInputs[op], true)
			if step == len(ops)-1 {
				want := c13BufShape(harfbuzz.NewBuffer(), newFonts(), c13BufInputs[op], false)
				if got != want {
					r.Violation("C13:buffer:differs-from-fresh", cs, fmt.Sprintf("after [%s]: %s gives %s, a fresh Buffer gives %s", cs.Names, m.opStr(op), mc.Trunc(got, 300), mc.Trunc(want, 300)))
				}
			}
		}
	}
	return m
}

// ---- (C) font.Face -----------------------------------------------------------------------------------

func c13Face(fontName string, glyphs []font.GID, label string) *c13machine {
	// ops: 0 SetVariations(nil) 1 SetVariations(heavy/wght max) 2 SetCoords(half) 3 SetPpem(0,0) 4 SetPpem(16,16) 5 SetPpem(109,109), then per glyph: extents, advance, data
	const nset = 6
	m := &c13machine{name: "font.Face(" + label + ")", nops: nset + 3*len(glyphs)}
	names := []string{"SetVariations(nil)", "SetVariations(max)", "SetCoords(half)", "SetPpem(0,0)", "SetPpem(16,16)", "SetPpem(109,109)"}
	m.opStr = func(op int) string {
		if op < nset {
			return names[op]
		}
		g := glyphs[(op-nset)/3]
		return []string{"GlyphExtents", "HorizontalAdvance", "GlyphData"}[(op-nset)%3] + fmt.Sprintf("(%d)", g)
	}
	ft := c13Font(fontName)
	vmax := []font.Variation{{Tag: ot.MustNewTag("wght"), Value: 900}}
	apply := func(f *font.Face, op int) {
		switch op {
		case 0:
			f.SetVariations(nil)
		case 1:
			f.SetVariations(vmax)
		case 2:
			c := ft.NormalizeVariations([]float32{650, 50}[:c13NAxes(fontName)])
			f.SetCoords(c)
		case 3:
			f.SetPpem(0, 0)
		case 4:
			f.SetPpem(16, 16)
		case 5:
			f.SetPpem(109, 109)
		}
	}
	query := func(f *font.Face, op int) string {
		g := glyphs[(op-nset)/3]
		switch (op - nset) % 3 {
		case 0:
			e, ok := f.GlyphExtents(g)
			return fmt.Sprint(e, ok)
		case 1:
			return fmt.Sprint(f.HorizontalAdvance(g), f.VerticalAdvance(g))
		}
		d := f.GlyphData(g)
		switch d := d.(type) {
		case font.GlyphOutline:
			return fmt.Sprintf("outline %d %x", len(d.Segments), mc.HashStr(fmt.Sprint(d.Segments)))
		case font.GlyphBitmap:
			return fmt.Sprintf("bitmap %d %dx%d", len(d.Data), d.Width, d.Height)
		case nil:
			return "nil"
		}
		return fmt.Sprintf("%T", d)
	}
	m.run = func(r *mc.Reporter, cs *c13case, ops []int) {
		f := font.NewFace(ft)
		lastVar, lastPpem := -1, -1
		for step, op := range ops {
			if op < nset {
				apply(f, op)
				if op <= 2 {
					lastVar = op
				} else {
					lastPpem = op
				}
				continue
			}
			got := query(f, op)
			if step == len(ops)-1 {
				fresh := font.NewFace(ft)
				if lastVar >= 0 {
					apply(fresh, lastVar)
				}
				if lastPpem >= 0 {
					apply(fresh, lastPpem)
				}
				if want := query(fresh, op); got != want {
					r.Violation("C13:face:differs-from-fresh", cs, fmt.Sprintf("after [%s]: %s = %s, on a fresh Face with the same settings %s", cs.Names, m.opStr(op), got, want))
				}
			}
		}
	}
	return m
}

func c13NAxes(name string) int {
	if name == c13VF || name == c13VF2 {
		return 1
	}
	return 0
}

// ---- (D) shaping.Segmenter ---------------------------------------------------------------------------

var c13SplitInputs = []c07case{
	{Text: []rune("ab (אב) 12"), End: 10, Dir: 0},
	{Text: []rune("a[b(c"), End: 5, Dir: 1},
	{Text: []rune("中a。ー"), End: 4, Dir: 2},
	{Text: []rune("a"), End: 1, Dir: 0},
	{Text: []rune("אa)α]"), End: 5, Dir: 0, Fontmap: 2},
	{Text: []rune("long latin text then عربي and more"), Start: 3, End: 30, Dir: 1, Lang: "fr", Fontmap: 3},
}

func c13Segmenter() *c13machine {
	m := &c13machine{name: "shaping.Segmenter", nops: len(c13SplitInputs)}
	m.opStr = func(op int) string {
		return fmt.Sprintf("Split(%q,dir %d)", string(c13SplitInputs[op].Text), c13SplitInputs[op].Dir)
	}
	m.run = func(r *mc.Reporter, cs *c13case, ops []int) {
		e := &c07env{r: r}
		var seg shaping.Segmenter
		for step, op := range ops {
			c := c13SplitInputs[op]
			got, _, _, ok := e.split(&seg, &c)
			if !ok {
				return
			}
			if step == len(ops)-1 {
				var fresh shaping.Segmenter
				want, _, _, _ := e.split(&fresh, &c)
				if !reflect.DeepEqual(got, want) {
					r.Violation("C13:segmenter:differs-from-fresh", cs, fmt.Sprintf("after [%s]: %s differs from a fresh Segmenter", cs.Names, m.opStr(op)))
				}
			}
		}
	}
	return m
}

// ---- (E) LineWrapper ---------------------------------------------------------------------------------

var c13Paragraphs = []wCase{
	{Text: []rune("aa a aa"), Runs: []wRun{{Dir: 0, Clusters: []wCluster{{2, 1}, {1, 1}, {1, 1}, {1, 1}, {2, 2}}}}},
	{Text: []rune("aa a aa"), Runs: []wRun{{Dir: 0, Clusters: []wCluster{{1, 1}, {1, 1}, {1, 1}, {1, 1}, {1, 1}, {1, 1}, {1, 1}}}}},
	// 7 runes like paragraphs 0, 1 and 4: the caller's paragraph buffer is edited in place between calls (see below)
	{Text: []rune("א ab\nאב"), Runs: []wRun{{Dir: 1, Clusters: []wCluster{{1, 1}, {1, 1}}}, {Dir: 0, Clusters: []wCluster{{1, 1}, {1, 1}, {1, 1}}}, {Dir: 1, Clusters: []wCluster{{1, 1}, {1, 1}}}}},
	{Text: []rune("a"), Runs: []wRun{{Dir: 0, Clusters: []wCluster{{1, 1}}}}},
	// same text, rune count, glyph count and direction as paragraph 0, clusters placed elsewhere
	{Text: []rune("aa a aa"), Runs: []wRun{{Dir: 0, Clusters: []wCluster{{2, 2}, {1, 1}, {1, 1}, {1, 1}, {2, 1}}}}},
}

type c13wcfg struct {
	policy, trunc, truncator int
	continues                bool
	lettersp                 int
}

var c13Configs = []c13wcfg{{0, 0, 0, false, 0}, {2, 2, 1, true, 0}, {1, 0, 0, false, 128}}
var c13Widths = []int{0, 17, 1000}

func linesImage(lines []shaping.Line, truncated int) string {
	var sb strings.Builder
	for _, l := range lines {
		sb.WriteString("L")
		for _, run := range l {
			fmt.Fprintf(&sb, "[%d+%d d%d a%d v%d:", run.Runes.Offset, run.Runes.Count, run.Direction, run.Advance, run.VisualIndex)
			for _, g := range run.Glyphs {
				fmt.Fprintf(&sb, "%d/%d/%d,", g.Mask, g.XAdvance, g.ClusterIndex)
			}
			sb.WriteString("]")
		}
		sb.WriteString("\n")
	}
	fmt.Fprintf(&sb, "t=%d", truncated)
	return sb.String()
}

func c13Wrapper() *c13machine {
	np, nc, nw := len(c13Paragraphs), len(c13Configs), len(c13Widths)
	nWrap := np * nc * nw
	nPrep := np * nc
	// ops: [0,nWrap) WrapParagraph(p,c,w); [nWrap,nWrap+nPrep) Prepare(p,c); then nw WrapNextLine(w)
	m := &c13machine{name: "LineWrapper", nops: nWrap + nPrep + nw}
	m.opStr = func(op int) string {
		switch {
		case op < nWrap:
			return fmt.Sprintf("WrapParagraph(par%d,cfg%d,w=%d)", op/(nc*nw), (op/nw)%nc, c13Widths[op%nw])
		case op < nWrap+nPrep:
			return fmt.Sprintf("Prepare(par%d,cfg%d)", (op-nWrap)/nc, (op-nWrap)%nc)
		}
		return fmt.Sprintf("WrapNextLine(%d)", c13Widths[op-nWrap-nPrep])
	}
	build := func(pi, ci int, seg *segmenter.Segmenter) *mPara {
		c := c13Paragraphs[pi]
		cfg := c13Configs[ci]
		c.Policy, c.Trunc, c.Truncator, c.Continues, c.LetterSp = cfg.policy, cfg.trunc, cfg.truncator, cfg.continues, cfg.lettersp
		c.Widths = []int{0}
		return buildPara(&c, seg)
	}
	m.run = func(r *mc.Reporter, cs *c13case, ops []int) {
		var lw shaping.LineWrapper
		var seg segmenter.Segmenter
		// the pending Prepare on the object under test, and the widths asked since
		prepared := -1
		var since []int
		var keepLines []shaping.Line
		keepImg := ""
		// the caller of the object under test keeps its paragraphs in one rune buffer per length and overwrites it in place
		// for the next call (the wrapper documents no ownership of the paragraph once a call has returned, and a pending
		// Prepare is over once the next Prepare/WrapParagraph starts); the fresh wrappers get private copies
		parBuf := map[int][]rune{}
		callerText := func(t []rune) []rune {
			b := parBuf[len(t)]
			if b == nil {
				b = make([]rune, len(t))
				parBuf[len(t)] = b
			}
			copy(b, t)
			return b
		}
		for step, op := range ops {
			last := step == len(ops)-1
			switch {
			case op < nWrap:
				p := build(op/(nc*nw), (op/nw)%nc, &seg)
				w := c13Widths[op%nw]
				lines, tr := lw.WrapParagraph(p.config(), w, callerText(p.c.Text), shaping.NewSliceIterator(p.copyRuns()))
				img := linesImage(lines, tr)
				prepared = -1
				keepLines, keepImg = lines, img
				if last {
					var fresh shaping.LineWrapper
					l2, t2 := fresh.WrapParagraph(p.config(), w, append([]rune(nil), p.c.Text...), shaping.NewSliceIterator(p.copyRuns()))
					if want := linesImage(l2, t2); img != want {
						r.Violation("C13:wrapper:differs-from-fresh", cs, fmt.Sprintf("after [%s]: %s gives\n%s\na fresh LineWrapper gives\n%s", cs.Names, m.opStr(op), mc.Trunc(img, 500), mc.Trunc(want, 500)))
					}
				}
			case op < nWrap+nPrep:
				prepared = op - nWrap
				since = since[:0]
				p := build(prepared/nc, prepared%nc, &seg)
				lw.Prepare(p.config(), callerText(p.c.Text), shaping.NewSliceIterator(p.copyRuns()))
				keepLines, keepImg = nil, ""
			default:
				w := c13Widths[op-nWrap-nPrep]
				if prepared < 0 {
					// WrapNextLine without a pending Prepare (fresh object or after WrapParagraph): only totality is required
					lw.WrapNextLine(w)
					continue
				}
				wl, done := lw.WrapNextLine(w)
				since = append(since, w)
				img := linesImage([]shaping.Line{wl.Line}, wl.Truncated) + fmt.Sprint(done, wl.NextLine)
				// lines returned since the last Prepare stay valid
				if keepImg != "" && linesImage(keepLines, 0) != keepImg {
					r.Violation("C13:wrapper:earlier-line-modified", cs, fmt.Sprintf("after [%s]: a line returned since the last Prepare changed", cs.Names))
				}
				keepLines = append(keepLines, wl.Line)
				keepImg = linesImage(keepLines, 0)
				if last {
					var fresh shaping.LineWrapper
					p := build(prepared/nc, prepared%nc, &seg)
					fresh.Prepare(p.config(), append([]rune(nil), p.c.Text...), shaping.NewSliceIterator(p.copyRuns()))
					var want string
					for _, w2 := range since {
						wl2, d2 := fresh.WrapNextLine(w2)
						want = linesImage([]shaping.Line{wl2.Line}, wl2.Truncated) + fmt.Sprint(d2, wl2.NextLine)
					}
					if img != want {
						r.Violation("C13:wrapper:differs-from-fresh", cs, fmt.Sprintf("after [%s]: %s gives\n%s\na fresh LineWrapper given the same Prepare and widths gives\n%s", cs.Names, m.opStr(op), mc.Trunc(img, 400), mc.Trunc(want, 400)))
					}
				}
			}
		}
	}
	return m
}

// ---- driver -------------------------------------------------------------------------------------------

func c13Machines() []*c13machine {
	return []*c13machine{
		c13Shaper(), c13Buffer(),
		c13Face(c13VF, []font.GID{1, 2, 3}, "CFF2 variable"),
		c13Face(c13VF2, []font.GID{1, 2}, "gvar+HVAR"),
		c13Face(c13Bitmap, []font.GID{1, 2}, "bitmap"),
		c13Segmenter(), c13Wrapper(),
	}
}

func c13Depth(tier string, m *c13machine) int {
	if m.nops > 30 { // LineWrapper: 63 operations
		if tier == "thorough" {
			return 4
		}
		return 3
	}
	if tier == "thorough" {
		return 5
	}
	return 4
}

func c13Shards(tier string) []string {
	var s []string
	for mi, m := range c13Machines() {
		for op := 0; op < m.nops; op++ {
			s = append(s, fmt.Sprintf("%d:%d", mi, op))
		}
	}
	return s
}

func c13Run(tier, shard string, r *mc.Reporter) {
	var mi, first int
	fmt.Sscanf(shard, "%d:%d", &mi, &first)
	m := c13Machines()[mi]
	depth := c13Depth(tier, m)
	r.Max("max_depth_"+strings.ReplaceAll(m.name, " ", "_"), int64(depth))
	var rec func(h []int)
	rec = func(h []int) {
		if r.Expired() {
			return
		}
		var names []string
		for _, op := range h {
			names = append(names, m.opStr(op))
		}
		cs := &c13case{Object: m.name, Ops: h, Names: strings.Join(names, "; ")}
		r.Eval()
		r.Count("transitions", int64(len(h)))
		r.Guard("C13", cs, func() { m.run(r, cs, h) })
		r.OutcomeStr(m.name+fmt.Sprint(h[len(h)-1], len(h)), len(h) > 1)
		if len(h) == 3 && r.WantSample() {
			r.Sample(cs)
		}
		if len(h) == depth {
			return
		}
		for op := 0; op < m.nops; op++ {
			rec(append(append([]int(nil), h...), op))
		}
	}
	rec([]int{first})
	if r.Expired() {
		r.Incomplete("deadline")
	}
}

func c13Replay(raw json.RawMessage, r *mc.Reporter) {
	var c c13case
	if json.Unmarshal(raw, &c) != nil {
		return
	}
	for _, m := range c13Machines() {
		if m.name == c.Object {
			r.Guard("C13", &c, func() { m.run(r, &c, c.Ops) })
		}
	}
}

func init() {
	Register(&mc.Check{
		ID: "C13", Level: "model_checking",
		Rule: "explicit exploration of every operation history up to the tier's depth on 7 real objects: HarfbuzzShaper (7 inputs over 4 faces incl. two faces of one variable Font with different variations, sizes, features, directions; SetFontCacheSize 0/1/2; SetVariations on a cached face), harfbuzz.Buffer (6 inputs: fonts, directions, flags, cluster levels, global and ranged features, sub-ranges with context), font.Face x3 fonts (SetVariations/SetCoords/SetPpem interleaved with extents, advances, glyph data), shaping.Segmenter (6 inputs), LineWrapper (WrapParagraph / Prepare / WrapNextLine over 5 paragraphs (two differing only in cluster placement; four of equal length, handed over in one caller buffer that is overwritten in place between calls) x 3 configs x 3 widths); " +
			"oracles: the last call equals the same call on freshly constructed objects carrying the same settings; Outputs returned by a shaper never change; lines stay unchanged until the next Prepare/WrapParagraph. Non-trivial = history of >= 2 operations",
		Assumptions: []string{"histories are enumerated without hidden-state merging; every trace runs on the implementation", "segmenter.Segmenter reuse is covered by C06; the wrapper's writes into the caller's glyph slices are not judged (inputs are rebuilt for every call)"},
		Shards:      c13Shards, Run: c13Run, Replay: c13Replay,
		Bounds: map[string]string{"quick": "all histories of length <= 4 (LineWrapper, 63 operations: 3)", "thorough": "all histories of length <= 5 (LineWrapper 4)"},
	})
}
