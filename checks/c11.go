package checks

// C11 — Character map lookup, enumeration and coverage agree.

import (
	"encoding/binary"
	"encoding/json"
	"fmt"
	"os"
	"path/filepath"
	"sort"
	"strconv"
	"strings"

	"github.com/go-text/typesetting/font"
	ot "github.com/go-text/typesetting/font/opentype"
	"github.com/go-text/typesetting/font/opentype/tables"
	"github.com/go-text/typesetting/fontscan"
	"github.com/go-text/typesetting/language"

	"verif/corpus"
	"verif/mc"
)

type c11case struct {
	Kind    string      `json:"kind"` // corpus | f4 | f6 | f10 | f12 | f13 | f0 | sym | scripts | runeset
	File    string      `json:"file,omitempty"`
	Seg     [][6]int    `json:"seg,omitempty"` // format 4: start,end,delta,mode,arrOff,_
	Groups  [][3]uint32 `json:"groups,omitempty"`
	First   int         `json:"first,omitempty"`
	Entries []uint16    `json:"entries,omitempty"`
	Ranges  [][2]rune   `json:"ranges,omitempty"`
	Ops     []int       `json:"ops,omitempty"`
	Page    int         `json:"page,omitempty"`
}

// agreement laws between Lookup, Iter, RuneRanges and the coverage hook, over the probe set
// (all code points for corpus faces; probe points for synthetic tables).
func c11Agree(r *mc.Reporter, cs *c11case, cm font.Cmap, probes []rune, all bool, ref map[rune]font.GID, fp *fontscan.Footprint, fpName string) {
	key := "C11:" + cs.Kind
	// 1. Iter: each rune once
	iterMap := map[rune]font.GID{}
	dup := false
	it := cm.Iter()
	n := 0
	for it.Next() {
		ru, g := it.Char()
		if _, ok := iterMap[ru]; ok && !dup {
			dup = true
			r.Violation(key+":iter-duplicate-rune", cs, fmt.Sprintf("Iter yields U+%04X more than once", ru))
		}
		iterMap[ru] = g
		n++
		if n > 3_000_000 {
			r.Violation(key+":iter-runaway", cs, "Iter yields more than 3e6 pairs")
			return
		}
	}
	// 2. Lookup on the probes vs Iter
	okSet := map[rune]font.GID{}
	check := func(ru rune) {
		g, ok := cm.Lookup(ru)
		ig, iok := iterMap[ru]
		if ok {
			okSet[ru] = g
		}
		if ok != iok {
			sub := "lookup-ok-but-not-enumerated"
			if iok {
				sub = "enumerated-but-lookup-fails"
				if ig == 0 {
					sub = "enumerated-with-glyph-0-but-lookup-fails"
				}
			}
			r.Violation(key+":iter-vs-lookup:"+sub, cs, fmt.Sprintf("U+%04X: Lookup=(%d,%v) Iter has it=%v (glyph %d)", ru, g, ok, iok, ig))
		} else if ok && g != ig {
			r.Violation(key+":iter-vs-lookup:glyph", cs, fmt.Sprintf("U+%04X: Lookup glyph %d, Iter glyph %d", ru, g, ig))
		}
		if ref != nil {
			rg, rok := ref[ru]
			if rok && rg == refSkip {
				return
			}
			// glyph 0 is "missing" per the spec: both conventions (reported as unmapped, or mapped to 0) are accepted
			if rok && rg != 0 {
				if !ok || g != rg {
					r.Violation(key+":lookup-vs-spec", cs, fmt.Sprintf("U+%04X: Lookup=(%d,%v), the subtable maps it to %d", ru, g, ok, rg))
				}
			} else if ok && g != 0 {
				r.Violation(key+":lookup-vs-spec", cs, fmt.Sprintf("U+%04X: Lookup=(%d,true) but the subtable does not map it", ru, g))
			}
		}
	}
	if all {
		for ru := rune(0); ru < 0x110000; ru++ {
			check(ru)
		}
		check(-1)
		check(0x110000)
		// anything enumerated outside the Unicode range?
		for ru := range iterMap {
			if ru < 0 || ru >= 0x110000 {
				check(ru)
			}
		}
	} else {
		for _, ru := range probes {
			check(ru)
		}
		for ru := range iterMap {
			check(ru)
		}
	}
	// 3. RuneRanges as a set == ok set (on the probes)
	if rr, isRanger := cm.(font.CmapRuneRanger); isRanger {
		ranges := rr.RuneRanges(nil)
		var painted []bool
		if all {
			painted = make([]bool, 0x110000)
			for _, ra := range ranges {
				for c := ra[0]; c <= ra[1] && c < 0x110000; c++ {
					if c >= 0 {
						painted[c] = true
					}
				}
			}
		}
		inRanges := func(ru rune) bool {
			if painted != nil && ru >= 0 && ru < 0x110000 {
				return painted[ru]
			}
			for _, ra := range ranges {
				if ra[0] <= ru && ru <= ra[1] {
					return true
				}
			}
			return false
		}
		for i, ra := range ranges {
			if ra[0] > ra[1] {
				r.Violation(key+":ranges-inverted", cs, fmt.Sprintf("RuneRanges()[%d] = [%d,%d]", i, ra[0], ra[1]))
			}
			if i > 0 && ranges[i-1][1] >= ra[0] {
				r.Violation(key+":ranges-not-sorted-disjoint", cs, fmt.Sprintf("RuneRanges()[%d]=%v after %v", i, ra, ranges[i-1]))
			}
		}
		cmp := func(ru rune) {
			_, ok := okSet[ru]
			if inRanges(ru) != ok {
				g, _ := cm.Lookup(ru)
				sub := "range-covers-unmapped-rune"
				if ok {
					sub = "mapped-rune-outside-ranges"
				}
				_ = g
				r.Violation(key+":ranges-vs-lookup:"+sub, cs, fmt.Sprintf("U+%04X: in RuneRanges=%v, Lookup ok=%v", ru, inRanges(ru), ok))
			}
		}
		if all {
			for ru := rune(0); ru < 0x110000; ru++ {
				cmp(ru)
			}
		} else {
			for _, ru := range probes {
				cmp(ru)
			}
			for _, ra := range ranges {
				cmp(ra[0])
				cmp(ra[1])
			}
		}
	}
	// 4. coverage recorded for font matching
	if fp != nil {
		scripts := map[language.Script]bool{}
		cmpCov := func(ru rune) {
			_, ok := okSet[ru]
			if ok {
				scripts[language.LookupScript(ru)] = true
			}
			if ru < 0 || ru > 0xFFFFFF {
				return
			}
			if fp.Runes.Contains(ru) != ok {
				sub := "coverage-claims-unmapped-rune"
				if ok {
					sub = "mapped-rune-missing-from-coverage"
				}
				r.Violation(key+":"+fpName+":"+sub, cs, fmt.Sprintf("U+%04X: coverage contains=%v, face maps it=%v", ru, fp.Runes.Contains(ru), ok))
			}
		}
		if all {
			for ru := rune(0); ru < 0x110000; ru++ {
				cmpCov(ru)
			}
		} else {
			for _, ru := range probes {
				cmpCov(ru)
			}
			for ru := range iterMap {
				cmpCov(ru)
			}
		}
		if all || len(probes) > 0 {
			var want []language.Script
			for s := range scripts {
				want = append(want, s)
			}
			sort.Slice(want, func(i, j int) bool { return want[i] < want[j] })
			got := []language.Script(fp.Scripts)
			if all && fmt.Sprint(got) != fmt.Sprint(want) {
				r.Violation(key+":"+fpName+":script-set", cs, fmt.Sprintf("script set %v, scripts of the mapped runes %v", got, want))
			}
		}
		// structure of the rune set: pages sorted and unique
		pages := fp.Runes.VerifPages()
		for i := 1; i < len(pages); i++ {
			if pages[i-1] >= pages[i] {
				r.Violation(key+":"+fpName+":runeset-pages-unsorted", cs, fmt.Sprintf("page refs %v", pages))
				break
			}
		}
	}
	r.OutcomeStr(fmt.Sprintf("%s %d", cs.Kind, len(okSet)%97), len(okSet) > 0)
}

// ---- (a) corpus ---------------------------------------------------------------------------------

func c11Corpus(r *mc.Reporter, f *corpus.File) {
	for fi, ld := range corpus.Loaders(f) {
		cs := &c11case{Kind: "corpus", File: fmt.Sprintf("%s#%d", f.Name, fi)}
		var ft *font.Font
		if !r.Guard("C11", cs, func() { ft, _ = font.NewFont(ld) }) || ft == nil {
			continue
		}
		r.Eval()
		r.Guard("C11", cs, func() {
			fp := fontscan.VerifFootprintFromFont(ft, fontscan.Location{}, font.Description{})
			c11Agree(r, cs, ft.Cmap, nil, true, nil, &fp, "footprint(AddFace)")
			// the path used when scanning font files builds its own cmap
			fp2, err := fontscan.VerifFootprintFromLoader(ld)
			if err == nil {
				c11CompareFootprint(r, cs, ft, &fp2)
			}
		})
		r.Count("corpus_faces", 1)
	}
}

// the scan path must record exactly the runes the loaded face maps
func c11CompareFootprint(r *mc.Reporter, cs *c11case, ft *font.Font, fp *fontscan.Footprint) {
	scripts := map[language.Script]bool{}
	reported := 0
	for ru := rune(0); ru < 0x110000; ru++ {
		_, ok := ft.NominalGlyph(ru)
		if ok {
			scripts[language.LookupScript(ru)] = true
		}
		if fp.Runes.Contains(ru) != ok && reported < 1 {
			reported++
			sub := "coverage-claims-unmapped-rune"
			if ok {
				sub = "mapped-rune-missing-from-coverage"
			}
			r.Violation("C11:corpus:footprint(scan):"+sub, cs, fmt.Sprintf("U+%04X: scanned coverage contains=%v, loaded face maps it=%v", ru, fp.Runes.Contains(ru), ok))
		}
	}
	var want []language.Script
	for s := range scripts {
		want = append(want, s)
	}
	sort.Slice(want, func(i, j int) bool { return want[i] < want[j] })
	if reported == 0 && fmt.Sprint([]language.Script(fp.Scripts)) != fmt.Sprint(want) {
		r.Violation("C11:corpus:footprint(scan):script-set", cs, fmt.Sprintf("script set %v, scripts of the mapped runes %v", fp.Scripts, want))
	}
}

// ---- (b) synthetic subtables --------------------------------------------------------------------

const refSkip = font.GID(0xFFFFFFFF) // reference undefined for this rune

var c11Bounds = []int{0, 1, 0x7F, 0x80, 0xFF, 0x100, 0x1FF, 0xFFFE, 0xFFFF}

func probesAround(pts []int) []rune {
	set := map[rune]bool{-1: true, 0: true, 0x10000: true, 0x10FFFF: true, 0x110000: true, 0xF020: true, 0x20: true}
	for _, p := range pts {
		for d := -1; d <= 1; d++ {
			set[rune(p+d)] = true
		}
	}
	var out []rune
	for k := range set {
		out = append(out, k)
	}
	sort.Slice(out, func(i, j int) bool { return out[i] < out[j] })
	return out
}

// one format-4 segment: [start,end], delta, mode 0 = delta only, 1 = glyph array all non-zero,
// 2 = glyph array with zero entries at even offsets, 3 = glyph array all zero
func c11Format4(segs [][6]int, sentinel int) (tables.CmapSubtable4, map[rune]font.GID) {
	var st tables.CmapSubtable4
	ref := map[rune]font.GID{}
	all := append([][6]int(nil), segs...)
	if sentinel > 0 {
		all = append(all, [6]int{0xFFFF, 0xFFFF, 1, 0, 0, sentinel})
	}
	segCount := len(all)
	var arr []uint16
	for i, s := range all {
		start, end, delta, mode := s[0], s[1], s[2], s[3]
		st.StartCode = append(st.StartCode, uint16(start))
		st.EndCode = append(st.EndCode, uint16(end))
		st.IdDelta = append(st.IdDelta, uint16(delta))
		if mode == 0 {
			off := uint16(0)
			if s[5] == 2 { // some fonts use 0xFFFF as idRangeOffset of the last segment
				off = 0xFFFF
			}
			st.IdRangeOffsets = append(st.IdRangeOffsets, off)
			for c := start; c <= end; c++ {
				ref[rune(c)] = font.GID(uint16(c + delta))
			}
			continue
		}
		off := len(arr)
		st.IdRangeOffsets = append(st.IdRangeOffsets, uint16(2*(off+segCount-i)))
		specDefined := start != 0xFFFF // the library deliberately ignores idRangeOffset on a segment starting at 0xFFFF ("some fonts use 0xFFFF for idRangeOff for the last segment")
		for c := start; c <= end; c++ {
			var g uint16
			switch mode {
			case 1:
				g = uint16(3 + (c-start)%200)
			case 2:
				if (c-start)%2 == 1 {
					g = uint16(3 + (c-start)%200)
				}
			}
			arr = append(arr, g)
			if !specDefined {
				ref[rune(c)] = refSkip
			} else if g != 0 {
				ref[rune(c)] = font.GID(uint16(int(g) + delta))
			}
		}
	}
	st.GlyphIDArray = make([]byte, 2*len(arr))
	for i, g := range arr {
		binary.BigEndian.PutUint16(st.GlyphIDArray[2*i:], g)
	}
	return st, ref
}

func c11Process(r *mc.Reporter, cs *c11case, sub tables.CmapSubtable, plat tables.PlatformID, enc tables.EncodingID, page tables.FontPage) font.Cmap {
	var cm font.Cmap
	var err error
	if !r.Guard("C11", cs, func() {
		cm, _, err = font.ProcessCmap(tables.Cmap{Records: []tables.EncodingRecord{{PlatformID: plat, EncodingID: enc, Subtable: sub}}}, page)
	}) {
		return nil
	}
	if err != nil || cm == nil {
		r.Count("synthetic_tables_rejected_by_ProcessCmap", 1)
		return nil
	}
	return cm
}

func c11Synth(r *mc.Reporter, cs *c11case, cm font.Cmap, probes []rune, ref map[rune]font.GID) {
	r.Eval()
	r.Guard("C11", cs, func() {
		rs, ss := fontscan.VerifCoveragesFromCmap(cm)
		fp := fontscan.Footprint{Runes: rs, Scripts: ss}
		c11Agree(r, cs, cm, probes, false, ref, &fp, "coverage")
	})
	if r.WantSample() {
		r.Sample(cs)
	}
}

func c11RunF4(r *mc.Reporter, sh, nsh int, tier string) {
	// all sorted disjoint lists of <= maxSeg segments over the boundary points
	type seg struct{ s, e int }
	var segs []seg
	for i, s := range c11Bounds {
		for _, e := range c11Bounds[i:] {
			segs = append(segs, seg{s, e})
		}
	}
	maxSeg := 2
	if tier == "thorough" {
		maxSeg = 3
	}
	variants := func(s seg, full bool) [][6]int {
		wrap := (0x10000 - s.s) & 0xFFFF
		deltas := []int{0, 1, 0xFFFF, wrap, (wrap + 0xFFFF) & 0xFFFF}
		var out [][6]int
		for _, d := range deltas {
			out = append(out, [6]int{s.s, s.e, d, 0, 0, 0})
			if !full {
				break
			}
		}
		if s.e-s.s <= 0x200 {
			out = append(out, [6]int{s.s, s.e, 0, 2, 0, 0})
			if full {
				out = append(out, [6]int{s.s, s.e, 0, 1, 0, 0}, [6]int{s.s, s.e, 5, 2, 0, 0}, [6]int{s.s, s.e, 0, 3, 0, 0}, [6]int{s.s, s.e, 0xFFFE, 1, 0, 0})
			}
		} else if !full {
			out = append(out, [6]int{s.s, s.e, wrap, 0, 0, 0})
		}
		return out
	}
	idx := 0
	var rec func(prefix [][6]int, lastEnd int, depth int)
	emit := func(list [][6]int) {
		for sentinel := 0; sentinel <= 2; sentinel++ {
			if sentinel > 0 && len(list) > 0 && list[len(list)-1][1] == 0xFFFF {
				continue
			}
			idx++
			if idx%nsh != sh {
				continue
			}
			cs := &c11case{Kind: "f4", Seg: append([][6]int(nil), list...), Page: sentinel}
			st, ref := c11Format4(list, sentinel)
			cm := c11Process(r, cs, st, tables.PlatformMicrosoft, tables.PEMicrosoftUnicodeCs, 0)
			if cm == nil {
				continue
			}
			var pts []int
			for _, s := range list {
				pts = append(pts, s[0], s[1], (s[0]+s[1])/2, (0x10000-s[2])&0xFFFF)
			}
			c11Synth(r, cs, cm, probesAround(pts), ref)
		}
	}
	rec = func(prefix [][6]int, lastEnd int, depth int) {
		if r.Expired() {
			return
		}
		emit(prefix)
		if depth == maxSeg {
			return
		}
		for _, s := range segs {
			if s.s <= lastEnd {
				continue
			}
			for _, v := range variants(s, depth+1 <= 2) {
				rec(append(append([][6]int(nil), prefix...), v), s.e, depth+1)
			}
		}
	}
	rec(nil, -1, 0)
}

func c11RunOther(r *mc.Reporter, tier string) {
	// formats 6 and 10: 0, 1, 2, 3 entries including glyph 0, first codes at boundaries
	for _, first := range []int{0, 1, 0x20, 0xFF, 0xFFFE, 0xFFFF} {
		for _, entries := range [][]uint16{{}, {0}, {7}, {7, 0}, {0, 7}, {7, 8, 9}, {7, 0, 9}} {
			gl := make([]tables.GlyphID, len(entries))
			ref := map[rune]font.GID{}
			for i, e := range entries {
				gl[i] = tables.GlyphID(e)
				if e != 0 {
					ref[rune(first+i)] = font.GID(e)
				}
			}
			pts := []int{first, first + len(entries), first + len(entries) - 1}
			cs := &c11case{Kind: "f6", First: first, Entries: entries}
			if cm := c11Process(r, cs, tables.CmapSubtable6{FirstCode: uint16(first), GlyphIdArray: gl}, tables.PlatformMicrosoft, tables.PEMicrosoftUnicodeCs, 0); cm != nil {
				c11Synth(r, cs, cm, probesAround(pts), ref)
			}
			for _, f10 := range []int{first, first + 0x10000, 0x10FFFE} {
				ref10 := map[rune]font.GID{}
				for i, e := range entries {
					if e != 0 {
						ref10[rune(f10+i)] = font.GID(e)
					}
				}
				cs := &c11case{Kind: "f10", First: f10, Entries: entries}
				if cm := c11Process(r, cs, tables.CmapSubtable10{StartCharCode: uint32(f10), GlyphIdArray: gl}, tables.PlatformMicrosoft, tables.PEMicrosoftUcs4, 0); cm != nil {
					c11Synth(r, cs, cm, probesAround([]int{f10, f10 + len(entries), f10 + len(entries) - 1}), ref10)
				}
			}
		}
	}
	// formats 12 and 13: <= 3 sorted groups over boundary code points, abutting and with one overlap point
	b := []uint32{0, 1, 0xFF, 0xFFFF, 0x10000, 0x10001, 0x10FFFE, 0x10FFFF}
	type grp struct{ s, e uint32 }
	var groups []grp
	for i, s := range b {
		for _, e := range b[i:] {
			if e-s <= 0x200 || (s == 0 && e == 0xFFFF) {
				groups = append(groups, grp{s, e})
			}
		}
	}
	var rec func(prefix []grp, depth int)
	emit := func(list []grp) {
		for _, startGlyph := range []uint32{0, 5, 0xFFFF} {
			for fmtN := 12; fmtN <= 13; fmtN++ {
				var gs []tables.SequentialMapGroup
				var raw [][3]uint32
				ref := map[rune]font.GID{}
				var pts []int
				for gi, g := range list {
					sg := startGlyph + uint32(gi)*0x300
					gs = append(gs, tables.SequentialMapGroup{StartCharCode: g.s, EndCharCode: g.e, StartGlyphID: sg})
					raw = append(raw, [3]uint32{g.s, g.e, sg})
					pts = append(pts, int(g.s), int(g.e))
					for c := g.s; c <= g.e; c++ {
						gid := sg
						if fmtN == 12 {
							gid = sg + (c - g.s)
						}
						if _, dup := ref[rune(c)]; !dup && gid != 0 {
							ref[rune(c)] = font.GID(gid)
						}
					}
				}
				cs := &c11case{Kind: "f" + strconv.Itoa(fmtN), Groups: raw}
				var sub tables.CmapSubtable = tables.CmapSubtable12{Groups: gs}
				if fmtN == 13 {
					sub = tables.CmapSubtable13{Groups: gs}
				}
				if cm := c11Process(r, cs, sub, tables.PlatformMicrosoft, tables.PEMicrosoftUcs4, 0); cm != nil {
					// groups sharing one code point are outside the spec: only agreement laws there
					overlap := false
					for i := 1; i < len(list); i++ {
						if list[i].s <= list[i-1].e {
							overlap = true
						}
					}
					if overlap {
						c11Synth(r, cs, cm, probesAround(pts), nil)
					} else {
						c11Synth(r, cs, cm, probesAround(pts), ref)
					}
				}
			}
		}
	}
	rec = func(prefix []grp, depth int) {
		if len(prefix) > 0 {
			emit(prefix)
		}
		if depth == 3 || r.Expired() {
			return
		}
		for _, g := range groups {
			if len(prefix) > 0 {
				last := prefix[len(prefix)-1]
				if g.s < last.e { // sorted; g.s == last.e is the one-point overlap, g.s == last.e+1 abutting
					continue
				}
			}
			rec(append(append([]grp(nil), prefix...), g), depth+1)
		}
	}
	rec(nil, 0)
	// format 0 (Macintosh) and the symbol / legacy Arabic remapping over a format 4 table at U+F0xx / U+F1xx / U+F2xx
	{
		var st tables.CmapSubtable0
		for i := range st.GlyphIdArray {
			st.GlyphIdArray[i] = uint8(i % 7) // zero entries included
		}
		cs := &c11case{Kind: "f0"}
		if cm := c11Process(r, cs, st, tables.PlatformMac, 0, 0); cm != nil {
			var pts []int
			for i := 0; i < 256; i++ {
				pts = append(pts, int(tables.DecodeMacintoshByte(byte(i))))
			}
			c11Synth(r, cs, cm, probesAround(pts), nil)
		}
	}
	for _, page := range []tables.FontPage{tables.FPNone, tables.FPSimpArabic, tables.FPTradArabic, tables.FPHebrew} {
		for _, base := range []int{0xF000, 0xF100, 0xF200} {
			st, _ := c11Format4([][6]int{{base + 0x20, base + 0x7E, (0x10000 - base) & 0xFFFF, 0, 0, 0}}, 1)
			cs := &c11case{Kind: "sym", Page: int(page), First: base}
			if cm := c11Process(r, cs, st, tables.PlatformMicrosoft, tables.PEMicrosoftSymbolCs, page); cm != nil {
				var pts []int
				for i := 0x1F; i <= 0x7F; i++ {
					pts = append(pts, i, base+i)
				}
				c11Synth(r, cs, cm, probesAround(pts), nil)
			}
		}
	}
}

// ---- (c) scriptsFromRanges ----------------------------------------------------------------------

func c11Scripts(r *mc.Reporter, sh, nsh int) {
	sr := language.ScriptRanges
	var pts []rune
	add := func(i int) {
		pts = append(pts, sr[i].Start-1, sr[i].Start, sr[i].End, sr[i].End+1)
	}
	for i := 0; i < 5 && i < len(sr); i++ {
		add(i)
	}
	for i := len(sr) - 2; i < len(sr); i++ {
		add(i)
	}
	pts = append(pts, 0x10FFFF, 0x110000)
	set := map[rune]bool{}
	var uniq []rune
	for _, p := range pts {
		if p >= 0 && !set[p] {
			set[p] = true
			uniq = append(uniq, p)
		}
	}
	sort.Slice(uniq, func(i, j int) bool { return uniq[i] < uniq[j] })
	idx := 0
	var rec func(prefix [][2]rune, from int)
	rec = func(prefix [][2]rune, from int) {
		if len(prefix) > 0 {
			idx++
			if idx%nsh == sh {
				cs := &c11case{Kind: "scripts", Ranges: append([][2]rune(nil), prefix...)}
				r.Eval()
				var got fontscan.ScriptSet
				if r.Guard("C11", cs, func() { got = fontscan.VerifScriptsFromRanges(prefix) }) {
					want := map[language.Script]bool{}
					for _, ra := range prefix {
						// walk the script ranges instead of every rune: exact set of scripts met in [ra0, ra1]
						for c := ra[0]; c <= ra[1]; {
							s := language.LookupScript(c)
							want[s] = true
							// jump to the end of the current script range / gap
							next := ra[1] + 1
							for _, e := range sr {
								if e.Start <= c && c <= e.End {
									next = e.End + 1
									break
								}
								if e.Start > c {
									next = e.Start
									break
								}
							}
							c = next
						}
					}
					var ws []language.Script
					for s := range want {
						ws = append(ws, s)
					}
					sort.Slice(ws, func(i, j int) bool { return ws[i] < ws[j] })
					if fmt.Sprint([]language.Script(got)) != fmt.Sprint(ws) {
						r.Violation("C11:scripts-from-ranges", cs, fmt.Sprintf("ranges %v: got %v want %v", prefix, got, ws))
					}
					r.OutcomeStr(fmt.Sprint(ws), len(ws) > 1)
				}
			}
		}
		if len(prefix) == 3 || r.Expired() {
			return
		}
		for i := from; i < len(uniq); i++ {
			for j := i; j < len(uniq); j++ {
				rec(append(append([][2]rune(nil), prefix...), [2]rune{uniq[i], uniq[j]}), j+1)
			}
		}
	}
	rec(nil, 0)
}

// ---- (d) RuneSet as a set: explicit-state search over operation histories ------------------------

var c11Runes = []rune{0, 31, 32, 255, 256, 0xFFFF, 0x10000, 0x10FFFF}

func c11RuneSet(r *mc.Reporter, depth int) {
	// operations: Add(i), Delete(i) for 8 runes = 16 ops; after each op the whole observable state is compared
	// with map[rune]bool: Contains on all runes, Len, includes against 3 fixed sets, serialize->deserialize.
	nops := 2 * len(c11Runes)
	seen := map[string]bool{}
	type node struct{ ops []int }
	frontier := []node{{}}
	fixed := [][]rune{{}, {0, 256}, c11Runes}
	states, transitions := 0, 0
	build := func(ops []int) (fontscan.RuneSet, map[rune]bool) {
		var rs fontscan.RuneSet
		model := map[rune]bool{}
		for _, op := range ops {
			ru := c11Runes[op/2]
			if op%2 == 0 {
				rs.Add(ru)
				model[ru] = true
			} else {
				rs.Delete(ru)
				delete(model, ru)
			}
		}
		return rs, model
	}
	for d := 0; d <= depth; d++ {
		var next []node
		for _, nd := range frontier {
			cs := &c11case{Kind: "runeset", Ops: nd.ops}
			var rs fontscan.RuneSet
			var model map[rune]bool
			if !r.Guard("C11", cs, func() { rs, model = build(nd.ops) }) {
				continue
			}
			r.Eval()
			transitions++
			// oracle
			r.Guard("C11", cs, func() {
				for _, ru := range append(append([]rune(nil), c11Runes...), 1, 33, 257, 0x10001, 0xFFFE) {
					if rs.Contains(ru) != model[ru] {
						r.Violation("C11:runeset:contains", cs, fmt.Sprintf("Contains(U+%04X)=%v model=%v", ru, rs.Contains(ru), model[ru]))
					}
				}
				if rs.Len() != len(model) {
					r.Violation("C11:runeset:len", cs, fmt.Sprintf("Len=%d model=%d", rs.Len(), len(model)))
				}
				for _, fx := range fixed {
					var other fontscan.RuneSet
					inc, incRev := true, true
					om := map[rune]bool{}
					for _, ru := range fx {
						other.Add(ru)
						om[ru] = true
						if !model[ru] {
							inc = false
						}
					}
					for ru := range model {
						if !om[ru] {
							incRev = false
						}
					}
					if rs.VerifIncludes(other) != inc {
						r.Violation("C11:runeset:includes", cs, fmt.Sprintf("includes(%v)=%v model=%v", fx, rs.VerifIncludes(other), inc))
					}
					if other.VerifIncludes(rs) != incRev {
						r.Violation("C11:runeset:includes", cs, fmt.Sprintf("%v.includes(set)=%v model=%v", fx, other.VerifIncludes(rs), incRev))
					}
				}
				data := rs.VerifSerialize()
				back, n, err := fontscan.VerifDeserializeRuneSet(data)
				if err != nil || n != len(data) {
					r.Violation("C11:runeset:serialize", cs, fmt.Sprintf("deserialize: n=%d of %d err=%v", n, len(data), err))
				} else {
					for _, ru := range c11Runes {
						if back.Contains(ru) != model[ru] {
							r.Violation("C11:runeset:serialize", cs, "round trip changes membership")
						}
					}
				}
			})
			// canonical state: the set contents + page layout (pages are never removed)
			var rs2 fontscan.RuneSet
			rs2, _ = build(nd.ops)
			key := fmt.Sprint(rs2.VerifPages(), rs2.VerifSerialize())
			if seen[key] {
				continue
			}
			seen[key] = true
			states++
			if d < depth {
				for op := 0; op < nops; op++ {
					next = append(next, node{append(append([]int(nil), nd.ops...), op)})
				}
			}
		}
		frontier = next
	}
	r.Count("runeset_states", int64(states))
	r.Count("runeset_transitions", int64(transitions))
	r.OutcomeStr(fmt.Sprintf("runeset-states-%d", states), true)
}

// ---- (e) directory scans: a file scanned after another file -----------------------------------------

// The directory scan re-uses its table buffers from one file to the next. Every corpus file is scanned alone and
// then as the second file of a directory whose first file is one of three fonts with rich tables: the recorded
// footprints (coverage, scripts, family, aspect) must not depend on the company.
var c11Predecessors = []string{"ot/common/Roboto-BoldItalic.ttf", "ot/common/NotoSansArabic.ttf", "ot/common/SourceSans-VF-HVAR.ttf"}

func c11Company(r *mc.Reporter, sh, nsh int, tier string) {
	files := corpus.Files()
	root, err := os.MkdirTemp(mc.Scratch(), "c11company")
	if err != nil {
		r.Incomplete("no scratch directory")
		return
	}
	defer os.RemoveAll(root)
	scan := func(dir string) map[string]uint64 {
		idx, err := fontscan.VerifScan(nil, fontscan.VerifIndex{}, dir)
		out := map[string]uint64{}
		if err != nil {
			return out
		}
		for _, f := range idx.Files() {
			fps := append([]fontscan.Footprint(nil), f.Footprints...)
			for i := range fps {
				fps[i].Location.File = ""
			}
			out[filepath.Base(f.Path)] = mc.DeepHash(&fps)
		}
		return out
	}
	for j := sh; j < len(files); j += nsh {
		if r.Expired() {
			r.Incomplete("deadline in directory scans")
			return
		}
		f := &files[j]
		if limit := 64 << 10; (tier == "quick" && len(f.Data) > limit) || len(f.Data) > 4<<20 {
			continue
		}
		ext := filepath.Ext(f.Name)
		// the file itself, and the file without each table the scanner reads as optional (the table buffer then keeps what the
		// previous file left in it)
		variants := [][]byte{f.Data}
		vnames := []string{""}
		if lds := corpus.Loaders(f); len(lds) == 1 && (ext == ".ttf" || ext == ".otf") {
			for _, drop := range []string{"OS/2", "name", "head", "hhea", "fvar"} {
				tag := ot.MustNewTag(drop)
				if !lds[0].HasTable(tag) {
					continue
				}
				var tbs []ot.Table
				for _, t := range lds[0].Tables() {
					if t == tag {
						continue
					}
					if raw, err := lds[0].RawTable(t); err == nil {
						tbs = append(tbs, ot.Table{Tag: t, Content: raw})
					}
				}
				variants = append(variants, ot.WriteTTF(tbs))
				vnames = append(vnames, " without "+drop)
			}
		}
		for vi, data := range variants {
			fdata, fname := data, f.Name+vnames[vi]
			alone := filepath.Join(root, fmt.Sprintf("alone%d_%d", j, vi))
			os.MkdirAll(alone, 0o755)
			os.WriteFile(filepath.Join(alone, "b_font"+ext), fdata, 0o644)
			var want map[string]uint64
			cs := &c11case{Kind: "company", File: f.Name}
			if !r.Guard("C11", cs, func() { want = scan(alone) }) {
				continue
			}
			for pi, pn := range c11Predecessors {
				p := corpus.Get(pn)
				if p == nil {
					continue
				}
				r.Eval()
				dir := filepath.Join(root, fmt.Sprintf("pair%d_%d_%d", j, vi, pi))
				os.MkdirAll(dir, 0o755)
				os.WriteFile(filepath.Join(dir, "a_font"+filepath.Ext(pn)), p.Data, 0o644)
				os.WriteFile(filepath.Join(dir, "b_font"+ext), fdata, 0o644)
				var got map[string]uint64
				cs := &c11case{Kind: "company", File: f.Name, First: pi}
				if !r.Guard("C11", cs, func() { got = scan(dir) }) {
					continue
				}
				if got["b_font"+ext] != want["b_font"+ext] {
					r.Violation("C11:scan:footprint-depends-on-previous-file", cs, fmt.Sprintf("%s: the footprints recorded when it is scanned after %s differ from the ones recorded when it is scanned alone", fname, pn))
				}
				r.OutcomeStr(fmt.Sprintf("company %d", want["b_font"+ext]%13), len(want) > 0)
				os.RemoveAll(dir)
			}
			os.RemoveAll(alone)
		}
	}
}

// c11CmapKinds: the smallest corpus file (single face, <= 64 KiB) for every concrete character map implementation
var c11kindsCache []*corpus.File

func c11CmapKinds() []*corpus.File {
	if c11kindsCache != nil {
		return c11kindsCache
	}
	seen := map[string]bool{}
	files := corpus.Files()
	for j := range files {
		f := &files[j]
		ext := filepath.Ext(f.Name)
		if len(f.Data) > 64<<10 || (ext != ".ttf" && ext != ".otf") {
			continue
		}
		lds := corpus.Loaders(f)
		if len(lds) != 1 {
			continue
		}
		var kind string
		func() {
			defer func() { recover() }()
			if ft, err := font.NewFont(lds[0]); err == nil && ft.Cmap != nil {
				kind = fmt.Sprintf("%T", ft.Cmap)
			}
		}()
		if kind != "" && !seen[kind] {
			seen[kind] = true
			c11kindsCache = append(c11kindsCache, f)
		}
	}
	return c11kindsCache
}

// c11SymbolFont builds a legacy symbol font: the first representative of c11CmapKinds with its character map replaced
// by a Microsoft Symbol (3,0) format 4 subtable mapping U+F020..U+F07E to glyphs 1..95
func c11SymbolFont(dropOS2 bool) []byte {
	if len(c11CmapKinds()) == 0 {
		return nil
	}
	ld := corpus.Loaders(c11CmapKinds()[0])[0]
	cm := []byte{0, 0, 0, 1, 0, 3, 0, 0, 0, 0, 0, 12,
		0, 4, 0, 32, 0, 0, 0, 4, 0, 4, 0, 1, 0, 0,
		0xF0, 0x7E, 0xFF, 0xFF, 0, 0, 0xF0, 0x20, 0xFF, 0xFF, 0x0F, 0xE1, 0, 1, 0, 0, 0, 0}
	var tbs []ot.Table
	for _, t := range ld.Tables() {
		raw, err := ld.RawTable(t)
		if err != nil || (dropOS2 && t == ot.MustNewTag("OS/2")) {
			continue
		}
		if t == ot.MustNewTag("cmap") {
			raw = cm
		}
		tbs = append(tbs, ot.Table{Tag: t, Content: raw})
	}
	return ot.WriteTTF(tbs)
}

// c11CompanyAll: one representative per character map implementation (whole, and without each optional table)
// scanned after EVERY corpus file: what the previous file leaves in the scan buffers must not matter
func c11CompanyAll(r *mc.Reporter, sh, nsh int, tier string) {
	files := corpus.Files()
	root, err := os.MkdirTemp(mc.Scratch(), "c11companyall")
	if err != nil {
		r.Incomplete("no scratch directory")
		return
	}
	defer os.RemoveAll(root)
	scan := func(dir string) uint64 {
		idx, err := fontscan.VerifScan(nil, fontscan.VerifIndex{}, dir)
		if err != nil {
			return 0
		}
		for _, f := range idx.Files() {
			if strings.HasPrefix(filepath.Base(f.Path), "b_font") {
				fps := append([]fontscan.Footprint(nil), f.Footprints...)
				for i := range fps {
					fps[i].Location.File = ""
				}
				return mc.DeepHash(&fps)
			}
		}
		return 1
	}
	type succ struct {
		name string
		data []byte
		want uint64
	}
	var succs []succ
	for _, f := range c11CmapKinds() {
		ld := corpus.Loaders(f)[0]
		succs = append(succs, succ{name: f.Name, data: f.Data})
		for _, drop := range []string{"OS/2", "name", "head", "hhea", "fvar"} {
			tag := ot.MustNewTag(drop)
			if !ld.HasTable(tag) {
				continue
			}
			var tbs []ot.Table
			for _, t := range ld.Tables() {
				if raw, err := ld.RawTable(t); err == nil && t != tag {
					tbs = append(tbs, ot.Table{Tag: t, Content: raw})
				}
			}
			succs = append(succs, succ{name: f.Name + " without " + drop, data: ot.WriteTTF(tbs)})
		}
	}
	// a synthetic legacy symbol font (Microsoft Symbol cmap U+F020..U+F07E): the font page of OS/2 decides how its
	// character map is remapped, so it is the one kind of font for which a stale OS/2 buffer changes the coverage
	for _, dropOS2 := range []bool{false, true} {
		if data := c11SymbolFont(dropOS2); data != nil {
			name := "synthetic symbol font"
			if dropOS2 {
				name += " without OS/2"
			}
			succs = append(succs, succ{name: name, data: data})
		}
	}
	for i := range succs {
		dir := filepath.Join(root, fmt.Sprintf("alone%d", i))
		os.MkdirAll(dir, 0o755)
		os.WriteFile(filepath.Join(dir, "b_font.ttf"), succs[i].data, 0o644)
		cs := &c11case{Kind: "companyall", File: succs[i].name}
		r.Guard("C11", cs, func() { succs[i].want = scan(dir) })
		os.RemoveAll(dir)
	}
	r.Max("max_successors(cmap kinds x dropped tables)", int64(len(succs)))
	for j := sh; j < len(files); j += nsh {
		if r.Expired() {
			r.Incomplete("deadline in directory scans (all predecessors)")
			return
		}
		p := &files[j]
		if (tier == "quick" && len(p.Data) > 64<<10) || len(p.Data) > 4<<20 {
			continue
		}
		for i := range succs {
			r.Eval()
			dir := filepath.Join(root, fmt.Sprintf("p%d_%d", j, i))
			os.MkdirAll(dir, 0o755)
			os.WriteFile(filepath.Join(dir, "a_font"+filepath.Ext(p.Name)), p.Data, 0o644)
			os.WriteFile(filepath.Join(dir, "b_font.ttf"), succs[i].data, 0o644)
			cs := &c11case{Kind: "companyall", File: succs[i].name, First: j}
			var got uint64
			if r.Guard("C11", cs, func() { got = scan(dir) }) && got != succs[i].want {
				r.Violation("C11:scan:footprint-depends-on-previous-file", cs, fmt.Sprintf("%s: the footprints recorded when it is scanned after %s differ from the ones recorded when it is scanned alone", succs[i].name, p.Name))
			}
			r.OutcomeStr(fmt.Sprintf("companyall %d", i%7), true)
			os.RemoveAll(dir)
		}
	}
}

// ---- driver ---------------------------------------------------------------------------------------

const c11CorpusShards = 48

func c11Shards(tier string) []string {
	var s []string
	s = append(s, "other", "runeset")
	for i := 0; i < 16; i++ {
		s = append(s, fmt.Sprintf("f4:%d", i))
	}
	for i := 0; i < 8; i++ {
		s = append(s, fmt.Sprintf("scripts:%d", i))
	}
	for i := 0; i < c11CorpusShards; i++ {
		s = append(s, fmt.Sprintf("corpus:%d", i))
	}
	for i := 0; i < 16; i++ {
		s = append(s, fmt.Sprintf("company:%d", i))
	}
	return s
}

func c11Run(tier, shard string, r *mc.Reporter) {
	parts := strings.SplitN(shard, ":", 2)
	sh := 0
	if len(parts) > 1 {
		sh, _ = strconv.Atoi(parts[1])
	}
	switch parts[0] {
	case "other":
		c11RunOther(r, tier)
	case "runeset":
		depth := 4
		if tier == "thorough" {
			depth = 5
		}
		c11RuneSet(r, depth)
	case "f4":
		c11RunF4(r, sh, 16, tier)
	case "scripts":
		c11Scripts(r, sh, 8)
	case "company":
		c11Company(r, sh, 16, tier)
		c11CompanyAll(r, sh, 16, tier)
	case "corpus":
		files := corpus.Files()
		for j := sh; j < len(files); j += c11CorpusShards {
			if r.Expired() {
				r.Incomplete("deadline in corpus faces")
				return
			}
			if tier == "quick" && len(files[j].Data) > 64<<10 {
				r.Count("corpus_files_skipped_quick(>64KiB)", 1)
				continue
			}
			c11Corpus(r, &files[j])
		}
	}
	if r.Expired() {
		r.Incomplete("deadline")
	}
}

func c11Replay(raw json.RawMessage, r *mc.Reporter) {
	var c c11case
	if json.Unmarshal(raw, &c) != nil {
		return
	}
	switch c.Kind {
	case "companyall":
		c11CompanyAll(r, c.First, len(corpus.Files()), "thorough")
	case "company":
		for j, f := range corpus.Files() {
			if f.Name == c.File {
				c11Company(r, j, len(corpus.Files()), "thorough")
			}
		}
	case "corpus":
		name := c.File[:strings.LastIndexByte(c.File, '#')]
		if f := corpus.Get(name); f != nil {
			c11Corpus(r, f)
		}
	case "f4":
		st, ref := c11Format4(c.Seg, c.Page)
		if cm := c11Process(r, &c, st, tables.PlatformMicrosoft, tables.PEMicrosoftUnicodeCs, 0); cm != nil {
			var pts []int
			for _, s := range c.Seg {
				pts = append(pts, s[0], s[1], (s[0]+s[1])/2, (0x10000-s[2])&0xFFFF)
			}
			c11Synth(r, &c, cm, probesAround(pts), ref)
		}
	case "scripts":
		got := fontscan.VerifScriptsFromRanges(c.Ranges)
		fmt.Println("scriptsFromRanges:", got)
		c11Scripts(r, 0, 1)
	case "runeset":
		c11RuneSet(r, 5)
	default:
		c11RunOther(r, "quick")
	}
}

func init() {
	Register(&mc.Check{
		ID: "C11", Level: "exploration",
		Rule: "(a) every corpus face (quick: files <= 64 KiB): all 0x110000 code points: Lookup vs the map built from Iter (each rune once) vs RuneRanges vs the coverage recorded by both footprint paths (AddFace and file scan) vs scripts of the mapped runes; " +
			"(b) synthetic subtables through ProcessCmap: format 4 - all sorted disjoint lists of <= 2 (thorough 3) segments over 9 boundary code points x 5 deltas (incl. wrap-around) x glyph-array modes (non-zero, zero entries, all zero) x sentinel segment {absent, idRangeOffset 0, 0xFFFF}; formats 6/10 with 0..3 entries incl. glyph 0; formats 12/13 with <= 3 groups over 8 boundary code points incl. abutting and one-point overlap; format 0; symbol and legacy Arabic remapping; each compared with a naive interpretation of the subtable; " +
			"(e) every corpus file (and the file without each of OS/2, name, head, hhea, fvar) scanned by the directory scanner alone and after each of 3 fonts, and one representative per character map implementation (whole and without each optional table) scanned after every corpus file: same footprints; (c) scriptsFromRanges on all sorted lists of <= 3 ranges over the end points (Start-1, Start, End, End+1) of the first 5 / last 2 script ranges; (d) RuneSet: BFS over Add/Delete histories on 8 boundary runes to depth 4 (thorough 5) vs map[rune]bool incl. includes and serialization. Non-trivial = at least one mapped rune",
		Assumptions: []string{"a rune mapped to glyph 0 may be reported either as unmapped or as mapped to 0 (both conventions exist); only the agreement between Lookup, Iter, RuneRanges and coverage is judged for it",
			"unsorted or overlapping format 4 segments are outside the OpenType specification and are not generated"},
		Shards: c11Shards, Run: c11Run, Replay: c11Replay,
		Bounds: map[string]string{"quick": "corpus files <= 64 KiB; format 4 lists of <= 2 segments; RuneSet depth 4", "thorough": "all corpus files; format 4 lists of <= 3 segments; RuneSet depth 5"},
	})
}
