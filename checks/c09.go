package checks

// C09 — font loading and querying are total on arbitrary bytes (E4: fault enumeration).
//
// Fault model: one fault on a valid corpus file.
//   set8   every byte of the position set  x  {v+1, v-1, 0x00, 0xFF, v^0x80, 0x20}
//   set16  every 2-byte aligned position p of the position set  x  {0, 1, 0x7FFF, 0x8000, 0xFFFF, v-1, v+1, len(file), len(table)}
//   set32  every 4-byte aligned position p of the position set  x  {0, 1, 0x7FFFFFFF, 0xFFFFFFFF, len(file)-1, len(file), offsets of (up to 8) other tables}
//   trunc  the prefix of every length of the truncation set
//   swap   every pair of table directory entries exchanging (offset, length)
// Position / truncation sets: the whole file for files up to the tier's "full" size; for larger files the container
// header and table directory, the first 64 bytes of every table, every table of at most 256 bytes, and truncation
// at every table boundary -1/0/+1 and at every length inside the first 16 bytes of every table.
// Driver per faulted file: opentype.NewLoaders; for every loader NewFont, and on every face: character map
// (64 probes + iterator), advances/origins/extents/outline-bitmap-SVG data/names of up to 512 glyphs (+ out of range
// ids), bitmap sizes, font extents, every line metric, Describe, the same glyph queries at three variation settings and
// with a ppem, and HarfbuzzShaper.Shape of a 6-rune string in both directions.
// Oracle: no panic (keyed by the innermost repository frame), no hang (watchdog), no worker death, and
// bytes allocated during the case <= min(64 MiB + 256 x len(file), 3 GiB) (runtime/metrics, single-threaded worker);
// RLIMIT_AS turns an unbounded allocation into a journalled worker death keyed by its repository frame.

import (
	"bytes"
	"encoding/binary"
	"encoding/json"
	"fmt"
	"os"
	"path/filepath"
	"runtime"
	"runtime/metrics"
	"sort"
	"strconv"
	"strings"
	"sync"
	"sync/atomic"
	"time"

	"verif/corpus"
	"verif/mc"

	"github.com/go-text/typesetting/di"
	"github.com/go-text/typesetting/font"
	ot "github.com/go-text/typesetting/font/opentype"
	"github.com/go-text/typesetting/language"
	"github.com/go-text/typesetting/shaping"
	"golang.org/x/image/math/fixed"
)

type c09case struct {
	File string `json:"file"`
	Kind string `json:"kind"` // none | set16 | set32 | trunc | swap
	Off  int    `json:"off"`
	Val  uint32 `json:"val"`
	A    int    `json:"a,omitempty"`
	B    int    `json:"b,omitempty"`
	Tab  string `json:"table,omitempty"`
}

type c09table struct {
	tag      string
	dirEntry int // offset of the 16-byte directory record
	off, len int
}

// c09directory reads the table directory of a plain sfnt file (nil for other containers)
func c09directory(b []byte) []c09table {
	if len(b) < 12 {
		return nil
	}
	switch string(b[:4]) {
	case "\x00\x01\x00\x00", "OTTO", "true", "typ1":
	default:
		return nil
	}
	n := int(binary.BigEndian.Uint16(b[4:]))
	if 12+16*n > len(b) {
		return nil
	}
	var out []c09table
	for i := 0; i < n; i++ {
		e := 12 + 16*i
		t := c09table{tag: string(b[e : e+4]), dirEntry: e, off: int(binary.BigEndian.Uint32(b[e+8:])), len: int(binary.BigEndian.Uint32(b[e+12:]))}
		if t.off < 0 || t.len < 0 || t.off+t.len > len(b) {
			continue
		}
		out = append(out, t)
	}
	return out
}

func c09tableAt(dir []c09table, off int) (string, int) {
	for _, t := range dir {
		if off >= t.off && off < t.off+t.len {
			return t.tag, t.len
		}
	}
	return "container", 0
}

// position sets
func c09positions(b []byte, dir []c09table, full, dirOnly, quick bool) (pos []int, truncs []int) {
	n := len(b)
	if full {
		for p := 0; p+2 <= n; p += 2 {
			pos = append(pos, p)
		}
		for l := 0; l < n; l++ {
			truncs = append(truncs, l)
		}
		return
	}
	seenP, seenT := map[int]bool{}, map[int]bool{}
	addP := func(from, to int) {
		for p := from &^ 1; p+2 <= to && p+2 <= n; p += 2 {
			if !seenP[p] {
				seenP[p] = true
				pos = append(pos, p)
			}
		}
	}
	addT := func(l int) {
		if l >= 0 && l < n && !seenT[l] {
			seenT[l] = true
			truncs = append(truncs, l)
		}
	}
	hdr := 256
	if dir != nil {
		hdr = 12 + 16*len(dir)
	}
	addP(0, hdr)
	for l := 0; l <= hdr && l < 600; l++ {
		addT(l)
	}
	for _, t := range dir {
		if dirOnly {
			// large files in the quick tier: directory, the start of every table and the tables of at most 64 bytes
			if t.len <= 64 {
				addP(t.off, t.off+t.len)
			} else {
				addP(t.off, t.off+8)
			}
			addT(t.off)
			addT(t.off + 4)
			continue
		}
		small, head := 256, 64
		if quick {
			small, head = 64, 16
		}
		if t.len <= small {
			addP(t.off, t.off+t.len)
		} else {
			addP(t.off, t.off+head)
		}
		for d := -1; d <= 16; d++ {
			if quick && d > 4 {
				break
			}
			addT(t.off + d)
		}
		addT(t.off + t.len - 1)
		addT(t.off + t.len + 1)
	}
	if dir == nil {
		// other containers (ttc, woff, dfont): a grid over the file and around its end
		grid := 512
		if quick && n > 1<<20 {
			grid = 48
		}
		step := n / grid
		if step < 2 {
			step = 2
		}
		step &^= 1
		for p := 0; p+2 <= n; p += step {
			addP(p, p+2)
			addT(p)
		}
		addP(n-64, n)
	}
	sort.Ints(pos)
	sort.Ints(truncs)
	return
}

var c09allocSample = []metrics.Sample{{Name: "/gc/heap/allocs:bytes"}}

// c09budget is the allocation law: 64 MiB + 256 x len(file), at most 3 GiB
func c09budget(fileLen int) uint64 {
	b := uint64(64<<20 + 256*fileLen)
	if b > 3<<30 {
		b = 3 << 30
	}
	return b
}

func c09allocated() uint64 {
	metrics.Read(c09allocSample)
	return c09allocSample[0].Value.Uint64()
}

var c09probes = []rune{0, ' ', 'A', 'a', 'f', 'i', '1', 0xE9, 0x301, 0x3A9, 0x5D0, 0x627, 0x644, 0x915, 0x94D, 0xE01, 0x1100, 0x4E2D, 0xAC00, 0xFB01, 0xFFFD, 0xFFFF, 0x1F600, 0x10FFFF,
	0x20, 0x21, 0x41, 0x42, 0x43, 0x61, 0x62, 0x63, 0x30, 0x31, 0xA0, 0xAD, 0x200C, 0x200D, 0x25CC, 0x2044, 0x3001, 0x3042, 0x30A2, 0xFE00, 0xE0100, 0x10000, 0x1D400, 0x2F800,
	0x0E33, 0x0D15, 0x0995, 0x0B95, 0x1780, 0x1000, 0x1820, 0x0F40, 0x0D9A, 0x05BC, 0x064E, 0x0651, 0x06DD, 0x2028, 0x7F, 0x80}

type c09env struct {
	blk, nblk, idx int  // block filter over the fault sequence
	noMonitor      bool // replay: let the case finish
	noShape        bool // quick tier: faults inside morx (state machine insertions make each shaping take about a second)
	r              *mc.Reporter
	shaper         shaping.HarfbuzzShaper
	glyphs         int
	thor           bool
	outcome        uint64
	baseOutcome    uint64
}

func (e *c09env) glyphQueries(face *font.Face, ft *font.Font, ids []font.GID) {
	for _, g := range ids {
		face.HorizontalAdvance(g)
		face.VerticalAdvance(g)
		face.GlyphVOrigin(g)
		ft.GlyphHOrigin(g)
		if _, ok := face.GlyphExtents(g); ok {
			e.outcome += 3
		}
		switch d := face.GlyphData(g).(type) {
		case font.GlyphOutline:
			e.outcome += uint64(len(d.Segments))
		case font.GlyphBitmap:
			e.outcome += 7
		case font.GlyphSVG:
			e.outcome += 11
		}
		ft.GlyphName(g)
		ft.GetGlyphContourPoint(g, 0)
		ft.GetGlyphContourPoint(g, 0xFFFF)
	}
}

// drive runs the whole query surface over the bytes
func (e *c09env) drive(b []byte) {
	e.shaper = shaping.HarfbuzzShaper{} // no font cache across cases: faulted faces of large files would pile up
	lds, err := ot.NewLoaders(bytes.NewReader(b))
	if err != nil {
		e.outcome = 1
		return
	}
	if maxFaces := 6; len(lds) > maxFaces || (!e.thor && len(lds) > 2) {
		if !e.thor {
			maxFaces = 2
		}
		lds = lds[:maxFaces]
	}
	e.outcome = 2
	var descBuf []byte
	for _, ld := range lds {
		_, descBuf = font.Describe(ld, descBuf)
		ft, err := font.NewFont(ld)
		if err != nil {
			e.outcome += 5
			continue
		}
		e.outcome += 1000
		face := font.NewFace(ft)
		ft.Describe()
		ft.IsMonospace()
		// character map
		var text []rune
		for _, r := range c09probes {
			if g, ok := ft.NominalGlyph(r); ok && g != 0 && len(text) < 6 && r >= ' ' {
				text = append(text, r)
			}
			ft.VariationGlyph(r, 0xFE00)
			ft.VariationGlyph(r, 0xE0100)
		}
		if ft.Cmap != nil {
			it := ft.Cmap.Iter()
			for n := 0; n < 3000 && it.Next(); n++ {
				r, _ := it.Char()
				if len(text) < 6 && r >= ' ' {
					text = append(text, r)
				}
			}
		}
		// glyph ids: up to e.glyphs evenly spaced, the last ones and ids outside the font
		ng := 0
		if raw, err := ld.RawTable(ot.MustNewTag("maxp")); err == nil && len(raw) >= 6 {
			ng = int(binary.BigEndian.Uint16(raw[4:]))
		}
		var ids []font.GID
		step := 1
		if ng > e.glyphs {
			step = ng / e.glyphs
		}
		for g := 0; g < ng; g += step {
			ids = append(ids, font.GID(g))
		}
		ids = append(ids, font.GID(ng-1), font.GID(ng), font.GID(ng+1), 0xFFFF, 0xFFFE, 0x10000, 0xFFFFFFFF)
		e.glyphQueries(face, ft, ids)
		ft.BitmapSizes()
		face.FontHExtents()
		face.FontVExtents()
		for m := font.UnderlinePosition; m <= font.XHeight; m++ {
			face.LineMetric(m)
		}
		// variations
		few := ids
		if len(few) > 40 {
			few = append(append([]font.GID{}, ids[:32]...), ids[len(ids)-8:]...)
		}
		if !e.thor && len(few) > 14 {
			few = append(append([]font.GID{}, ids[:6]...), ids[len(ids)-8:]...)
		}
		varValues := []float32{-100000, 450}
		if e.thor {
			varValues = []float32{-100000, 1, 450, 100000}
		}
		for _, v := range varValues {
			face.SetVariations([]font.Variation{{Tag: ot.MustNewTag("wght"), Value: v}, {Tag: ot.MustNewTag("wdth"), Value: v}, {Tag: ot.MustNewTag("opsz"), Value: v}, {Tag: ot.MustNewTag("slnt"), Value: -v}})
			nAxes := len(face.Coords())
			if nAxes == 0 {
				break
			}
			design := make([]float32, nAxes)
			for i := range design {
				design[i] = v * float32(i+1)
			}
			face.SetCoords(ft.NormalizeVariations(design))
			e.glyphQueries(face, ft, few)
			face.FontHExtents()
			face.LineMetric(font.XHeight)
		}
		face.SetVariations(nil)
		face.SetPpem(16, 16)
		e.glyphQueries(face, ft, few)
		face.SetPpem(0, 0)
		// shaping
		for len(text) < 6 {
			text = append(text, []rune("Afi 1́")[len(text)])
		}
		dirs := []di.Direction{di.DirectionLTR, di.DirectionRTL}
		if e.thor {
			dirs = append(dirs, di.DirectionTTB)
		}
		if e.noShape {
			dirs = nil
		}
		for _, dir := range dirs {
			out := e.shaper.Shape(shaping.Input{Text: text, RunStart: 0, RunEnd: len(text), Direction: dir, Face: face, Size: fixed.I(16), Script: language.LookupScript(text[0]), Language: language.NewLanguage("en")})
			e.outcome += uint64(len(out.Glyphs)) << 20
		}
	}
}

// allocation monitor: the law is also enforced while a case runs, because a forged file can make the decoder
// allocate for minutes; the worker then ends itself with the violation (it cannot interrupt the library).
var (
	c09monOnce   sync.Once
	c09monLimit  atomic.Uint64 // absolute value of /gc/heap/allocs:bytes not to exceed; 0: no case running
	c09monCase   atomic.Pointer[c09case]
	c09monSample = []metrics.Sample{{Name: "/gc/heap/allocs:bytes"}}
)

func c09monitor() {
	for {
		time.Sleep(20 * time.Millisecond)
		limit := c09monLimit.Load()
		if limit == 0 {
			continue
		}
		metrics.Read(c09monSample)
		if c09monSample[0].Value.Uint64() <= limit {
			continue
		}
		cs := c09monCase.Load()
		buf := make([]byte, 1<<20)
		st := string(buf[:runtime.Stack(buf, true)])
		site := "unknown"
		for _, l := range strings.Split(st, "\n") {
			if strings.HasPrefix(l, "github.com/go-text/typesetting/") {
				site = strings.TrimPrefix(l, "github.com/go-text/typesetting/")
				if i := strings.LastIndex(site, "("); i > 0 {
					site = site[:i]
				}
				break
			}
		}
		// the eager decoding of GSUB/GPOS is one class, wherever the sample falls
		for _, fn := range []string{"tables.ParseLayout(", "tables.ParseGDEF(", "font.newGSUB(", "font.newGPOS("} {
			if strings.Contains(st, fn) {
				site = c09layoutClass
			}
		}
		mc.ExitWithViolation("C09:alloc@"+site, cs, fmt.Sprintf("allocation law exceeded while the case was still running (more than twice the budget): %s %s off=%d val=%#x", cs.File, cs.Kind, cs.Off, cs.Val))
	}
}

const c09layoutClass = "GSUB/GPOS/GDEF lists decoded eagerly (overlapping offsets)"

func (e *c09env) one(b []byte, cs *c09case, fileLen int) {
	r := e.r
	if cs.Kind != "none" && e.nblk > 1 {
		e.idx++
		if e.idx%e.nblk != e.blk {
			e.outcome = e.baseOutcome // not a change
			return
		}
	}
	c09monOnce.Do(func() { go c09monitor() })
	r.Eval()
	r.Journal(fmt.Sprintf("%s %s off=%d val=%#x a=%d b=%d", cs.File, cs.Kind, cs.Off, cs.Val, cs.A, cs.B))
	before := c09allocated()
	t0 := time.Now()
	if !e.noMonitor {
		c09monCase.Store(cs)
		c09monLimit.Store(before + 2*c09budget(fileLen))
	}
	ok := r.Guard("C09", cs, func() { e.drive(b) })
	c09monLimit.Store(0)
	after := c09allocated()
	if d := time.Since(t0); d > 2*time.Second {
		r.Count("cases_over_2s(informative)", 1)
		if os.Getenv("C09_SLOW") != "" {
			fmt.Fprintf(os.Stderr, "SLOW %v %s %s off=%d val=%#x a=%d b=%d alloc=%d\n", d, cs.File, cs.Kind, cs.Off, cs.Val, cs.A, cs.B, after-before)
		}
	}
	if budget := c09budget(fileLen); ok && after-before > budget {
		site := e.allocSite(b)
		r.Violation("C09:alloc@"+site, cs, fmt.Sprintf("%s %s at %d = %#x (table %s): %d bytes allocated for a %d byte file (budget %d)", cs.File, cs.Kind, cs.Off, cs.Val, cs.Tab, after-before, fileLen, budget))
	}
	if cs.Kind != "none" && e.outcome != e.baseOutcome && r.WantSample() {
		r.Sample(map[string]any{"fault": cs, "bytes_allocated": after - before, "observable_result_changed": true, "loaded_faces_and_queries_signature": e.outcome % 1000003})
	}
	r.Max("max_bytes_allocated_in_one_case", int64(after-before))
	r.Outcome(e.outcome%1000003, e.outcome > 1000)
}

// allocSite re-runs the case with heap profiling and returns the repository function that allocated most
func (e *c09env) allocSite(b []byte) string {
	old := runtime.MemProfileRate
	runtime.MemProfileRate = 16 << 10
	defer func() { runtime.MemProfileRate = old }()
	snapshot := func() map[string]int64 {
		runtime.GC()
		runtime.GC()
		n, _ := runtime.MemProfile(nil, true)
		recs := make([]runtime.MemProfileRecord, n+200)
		n, ok := runtime.MemProfile(recs, true)
		if !ok {
			return nil
		}
		out := map[string]int64{}
		for _, rec := range recs[:n] {
			frames := runtime.CallersFrames(rec.Stack())
			site, layout := "", false
			for {
				fr, more := frames.Next()
				if strings.HasPrefix(fr.Function, "github.com/go-text/typesetting/") {
					f := strings.TrimPrefix(fr.Function, "github.com/go-text/typesetting/")
					if site == "" {
						site = f
					}
					switch f {
					case "font/opentype/tables.ParseLayout", "font/opentype/tables.ParseGDEF", "font.newGSUB", "font.newGPOS":
						layout = true
					}
				}
				if !more {
					break
				}
			}
			if layout {
				site = c09layoutClass
			}
			if site != "" {
				out[site] += rec.AllocBytes
			}
		}
		return out
	}
	before := snapshot()
	func() {
		defer func() { recover() }()
		e.drive(b)
	}()
	after := snapshot()
	best, bestN := "unknown", int64(0)
	for k, v := range after {
		if d := v - before[k]; d > bestN {
			best, bestN = k, d
		}
	}
	return best
}

// c09blocks: the faults of a file are dealt round-robin into blocks of about 6000, one shard each
func c09blocks(tier string, i int) int {
	f := &corpus.Files()[i]
	n := len(f.Data)
	thor := tier == "thorough"
	full := c09full(tier, i, n)
	dir := c09directory(f.Data)
	pos, truncs := c09positions(f.Data, dir, full, !thor && n > 256<<10, !thor)
	per := 5 + 2 + 2*2 // quick header model: 16-bit, 32-bit on every other position, two bytes x 2
	if thor {
		per = 9 + 7 + 2*6
	} else if full {
		per = 5 + 2 + 2*6
	}
	total := len(pos)*per + len(truncs) + len(dir)*len(dir)/2
	return 1 + total/6000
}

func c09full(tier string, i, n int) bool {
	if tier == "thorough" {
		return n <= 8192
	}
	return n <= 2048 && i%8 == 0
}

// c09Cases replays the stored witnesses of every defect found so far (c09cases/*.json): a repaired defect coming back is
// reported at once, whatever positions the tier enumerates
func c09Cases(r *mc.Reporter) {
	files, _ := filepath.Glob(filepath.Join(mc.Root, "c09cases", "*.json"))
	sort.Strings(files)
	e := &c09env{r: r, glyphs: 512, thor: true}
	for _, p := range files {
		raw, err := os.ReadFile(p)
		if err != nil {
			continue
		}
		var v struct {
			Key  string  `json:"key"`
			Case c09case `json:"case"`
		}
		if json.Unmarshal(raw, &v) != nil || v.Case.File == "" || v.Case.Kind == "none" || !strings.HasPrefix(v.Key, "C09:panic@") {
			continue // the allocation class is a known finding and is found again by the enumeration itself
		}
		f := corpus.Get(v.Case.File)
		if f == nil {
			continue
		}
		cs := v.Case
		e.one(c09apply(f.Data, &cs), &cs, len(f.Data))
		r.Count("stored_witnesses_replayed", 1)
	}
}

func c09Run(tier, shard string, r *mc.Reporter) {
	if shard == "cases" {
		c09Cases(r)
		return
	}
	parts := strings.Split(shard, "/")
	i, _ := strconv.Atoi(parts[0])
	blk, nblk := 0, 1
	if len(parts) == 3 {
		blk, _ = strconv.Atoi(parts[1])
		nblk, _ = strconv.Atoi(parts[2])
	}
	f := &corpus.Files()[i]
	orig := f.Data
	n := len(orig)
	thor := tier == "thorough"
	full := c09full(tier, i, n)
	dir := c09directory(orig)
	for _, t := range dir {
		if !thor && (t.tag == "morx" || t.tag == "mort") {
			full = false // state machine insertions make each shaping of a faulted file slow: header model in the quick tier
		}
	}
	e := &c09env{r: r, glyphs: 24, thor: thor}
	if thor {
		e.glyphs = 512
	}
	buf := append([]byte(nil), orig...)
	// baseline
	base := c09case{File: f.Name, Kind: "none"}
	e.one(buf, &base, n)
	if r.NumViolations() > 0 {
		return
	}
	baseOutcome := e.outcome
	e.baseOutcome = baseOutcome
	e.blk, e.nblk = blk, nblk
	pos, truncs := c09positions(orig, dir, full, !thor && n > 256<<10, !thor)
	if blk == 0 {
		if full {
			r.Count("files_full_model", 1)
		} else {
			r.Count("files_header_model", 1)
		}
	}
	var otherOffs []uint32
	for k, t := range dir {
		if k < 8 {
			otherOffs = append(otherOffs, uint32(t.off))
		}
	}
	changed := 0
	for _, p := range pos {
		if r.Expired() {
			break
		}
		tab, tlen := c09tableAt(dir, p)
		v := uint32(binary.BigEndian.Uint16(orig[p:]))
		vals := []uint32{0, 1, 0x7FFF, 0x8000, 0xFFFF, (v - 1) & 0xFFFF, (v + 1) & 0xFFFF, uint32(n) & 0xFFFF, uint32(tlen) & 0xFFFF}
		if !thor {
			vals = []uint32{0, 0xFFFF, (v + 1) & 0xFFFF, 0x7FFF, uint32(tlen) & 0xFFFF}
		}
		done := map[uint32]bool{v: true}
		for _, nv := range vals {
			if done[nv] {
				continue
			}
			done[nv] = true
			binary.BigEndian.PutUint16(buf[p:], uint16(nv))
			cs := c09case{File: f.Name, Kind: "set16", Off: p, Val: nv, Tab: tab}
			e.one(buf, &cs, n)
			if e.outcome != baseOutcome {
				changed++
			}
		}
		copy(buf[p:p+2], orig[p:p+2])
		if p%4 == 0 && p+4 <= n {
			v := binary.BigEndian.Uint32(orig[p:])
			vals := append([]uint32{0, 1, 0x7FFFFFFF, 0xFFFFFFFF, uint32(n - 1), uint32(n)}, otherOffs...)
			if !thor {
				vals = []uint32{0, 0xFFFFFFFF, uint32(n), 0x7FFFFFFF}
			}
			done := map[uint32]bool{v: true}
			for _, nv := range vals {
				if done[nv] {
					continue
				}
				done[nv] = true
				binary.BigEndian.PutUint32(buf[p:], nv)
				cs := c09case{File: f.Name, Kind: "set32", Off: p, Val: nv, Tab: tab}
				e.one(buf, &cs, n)
				if e.outcome != baseOutcome {
					changed++
				}
			}
			copy(buf[p:p+4], orig[p:p+4])
		}
	}
	// every byte of the position set: neighbours, extremes, sign flip and 0x20 (the most negative one-byte DICT operand)
	for _, p0 := range pos {
		if r.Expired() {
			break
		}
		for p := p0; p < p0+2 && p < n; p++ {
			tab, _ := c09tableAt(dir, p)
			v := orig[p]
			done := map[byte]bool{v: true}
			vals := []byte{v + 1, v - 1, 0x00, 0xFF, v ^ 0x80, 0x20}
			if !thor && !full {
				vals = []byte{v + 1, v ^ 0x80}
			}
			for _, nv := range vals {
				if done[nv] {
					continue
				}
				done[nv] = true
				buf[p] = nv
				cs := c09case{File: f.Name, Kind: "set8", Off: p, Val: uint32(nv), Tab: tab}
				e.one(buf, &cs, n)
				if e.outcome != baseOutcome {
					changed++
				}
			}
			buf[p] = v
		}
	}
	for _, l := range truncs {
		if r.Expired() {
			break
		}
		tab, _ := c09tableAt(dir, l)
		cs := c09case{File: f.Name, Kind: "trunc", Off: l, Tab: tab}
		e.one(buf[:l], &cs, n)
		if e.outcome != baseOutcome {
			changed++
		}
	}
	// every pair of directory entries exchanging offset and length
	if (len(dir) <= 24 && n <= 256<<10) || thor {
		for a := 0; a < len(dir) && !r.Expired(); a++ {
			for b := a + 1; b < len(dir); b++ {
				ea, eb := dir[a].dirEntry, dir[b].dirEntry
				copy(buf[ea+8:ea+16], orig[eb+8:eb+16])
				copy(buf[eb+8:eb+16], orig[ea+8:ea+16])
				cs := c09case{File: f.Name, Kind: "swap", A: a, B: b, Tab: dir[a].tag + "<>" + dir[b].tag}
				e.one(buf, &cs, n)
				copy(buf[ea+8:ea+16], orig[ea+8:ea+16])
				copy(buf[eb+8:eb+16], orig[eb+8:eb+16])
			}
		}
	}
	r.Count("faults_changing_the_observable_result", int64(changed))
	if r.Expired() {
		r.Incomplete("deadline in " + f.Name)
	}
}

// largest files first: their shards are the longest
func c09Shards(tier string) []string {
	s := []string{"cases"} // the witnesses of the defects repaired so far, first
	for i := len(corpus.Files()) - 1; i >= 0; i-- {
		k := c09blocks(tier, i)
		for b := 0; b < k; b++ {
			s = append(s, fmt.Sprintf("%d/%d/%d", i, b, k))
		}
	}
	return s
}

func c09apply(orig []byte, cs *c09case) []byte {
	buf := append([]byte(nil), orig...)
	switch cs.Kind {
	case "set8":
		buf[cs.Off] = byte(cs.Val)
	case "set16":
		binary.BigEndian.PutUint16(buf[cs.Off:], uint16(cs.Val))
	case "set32":
		binary.BigEndian.PutUint32(buf[cs.Off:], cs.Val)
	case "trunc":
		buf = buf[:cs.Off]
	case "swap":
		dir := c09directory(orig)
		ea, eb := dir[cs.A].dirEntry, dir[cs.B].dirEntry
		copy(buf[ea+8:ea+16], orig[eb+8:eb+16])
		copy(buf[eb+8:eb+16], orig[ea+8:ea+16])
	}
	return buf
}

func c09Replay(raw json.RawMessage, r *mc.Reporter) {
	var cs c09case
	if json.Unmarshal(raw, &cs) != nil || cs.File == "" {
		var j struct{ Journal, Shard string }
		json.Unmarshal(raw, &j)
		fmt.Println("journalled case:", j.Journal, "- re-running shard", j.Shard)
		if j.Shard != "" {
			c09Run("quick", j.Shard, r)
		}
		return
	}
	f := corpus.Get(cs.File)
	if f == nil {
		fmt.Println("unknown corpus file", cs.File)
		return
	}
	e := &c09env{r: r, glyphs: 512, thor: true, noMonitor: true}
	e.one(c09apply(f.Data, &cs), &cs, len(f.Data))
}

func init() {
	Register(&mc.Check{
		ID: "C09", Level: "fault_enumeration",
		Rule:        "for every single fault (8/16/32-bit field value, truncation, directory swap) on every corpus file: loading and the whole query surface and shaping return without panic, hang or worker death, allocating at most min(64 MiB + 256 x len(file), 3 GiB) bytes",
		Assumptions: []string{"one fault per file (pairs only as directory swaps)", "positions: whole file up to the tier's size bound, else container header, directory, first 64 bytes of every table and every table <= 256 bytes", "coverage-guided random mutation named by the property is sampling and is not part of this check", "time is bounded by the per-case watchdog only (no wall-clock proportionality oracle)"},
		Shards:      c09Shards, Run: c09Run, Replay: c09Replay,
		Watchdog: 120 * time.Second, MemLimit: 16 << 30,
		Deadline: map[string]time.Duration{"thorough": 55 * time.Minute},
		Bounds:   map[string]string{"quick": "directory swaps for files <= 256 KiB; full model (every aligned position, every prefix) for every 8th file <= 2 KiB (without morx/mort); header model for the others (first 16 bytes of every table, tables <= 64 bytes; files > 256 KiB: directory and the first 8 bytes of every table, 2 faces); reduced value sets (5 16-bit values, 4 32-bit values); 24 glyphs per face (14 per variation setting), 2 variation settings, 2 directions", "thorough": "full model for every file <= 8 KiB; header model for larger files; full value sets (9 16-bit, 6 + up to 8 table offsets 32-bit); 512 glyphs per face, 4 variation settings, 3 directions"},
	})
}
