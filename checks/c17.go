//go:build c17

package checks

// C17 — a parsed font can be shared by concurrent goroutines.
//
// The repository holds a single synchronisation primitive (fontscan's sync.Once): everything else relies on
// "*font.Font is immutable after NewFont and package-level tables are only written by init". The check decides
// exactly that, by explicit-state exploration of operation interleavings with a write monitor:
//
//	shared roots    every shared *font.Font (7 fonts: glyf+GSUB/GPOS, CFF, CFF2 variable, gvar and HVAR variable, morx, bitmap; plus one
//	                font per character map implementation of the corpus and a synthetic legacy symbol font, explored with the
//	                cmap / FontMap / shaping operations)
//	                and every package-level variable of every repository package (listed by tools/c17gen at build time)
//	threads         2 threads x 2 operations (thorough: 3 against 2) and 3 threads x 1 operation, over an alphabet of 9 operations that are
//	                forced to collide (same font, same glyphs, same lazily reachable tables, same globals)
//	exploration     every pair / triple of thread programs x every interleaving at operation granularity (explicit
//	                states = (font, programs, schedule prefix)); transitions run the real operation
//	oracle          (1) after every transition the deep hash of the shared font and of the package-level variables is
//	                unchanged (any write to memory another goroutine may read is a race by definition: with no
//	                synchronisation in these packages there is no lock that could make it legal);
//	                (2) every operation returns what the same thread program returns when it runs alone.
//
// The complete set of package-level variables (large Unicode tables included) is hashed around every operation in
// the solo runs; in the interleaved runs the font and the variables of at most 64 nodes at start-up (scalars, nil or empty caches, small structures) are hashed at every step.
// A free-running pass of the same operations under the race detector (64 goroutines, separate -race binary) is
// the complementary detector for writes that are undone before an operation ends, and for the sync.Once harness
// (concurrent FontMap.UseSystemFonts on a scratch font directory); it is sampling and reported as such.

import (
	"bytes"
	"encoding/json"
	"fmt"
	"os"
	"os/exec"
	"path/filepath"
	"reflect"
	"sort"
	"strconv"
	"strings"
	"sync"
	"sync/atomic"

	"verif/corpus"
	"verif/mc"

	"github.com/go-text/typesetting/di"
	"github.com/go-text/typesetting/font"
	fcff "github.com/go-text/typesetting/font/cff"
	fps "github.com/go-text/typesetting/font/cff/interpreter"
	ot "github.com/go-text/typesetting/font/opentype"
	"github.com/go-text/typesetting/font/opentype/tables"
	"github.com/go-text/typesetting/fontscan"
	"github.com/go-text/typesetting/harfbuzz"
	"github.com/go-text/typesetting/language"
	"github.com/go-text/typesetting/segmenter"
	"github.com/go-text/typesetting/shaping"
	"github.com/go-text/typesetting/unicodedata"
	"golang.org/x/image/math/fixed"
)

type c17case struct {
	Font     string  `json:"font"`
	Programs [][]int `json:"programs"`
	Schedule []int   `json:"schedule"` // thread index of every step
	Step     int     `json:"step,omitempty"`
	What     string  `json:"what,omitempty"`
}

var c17FontFiles = []string{
	"hb/fonts/TestGVAREight.ttf",       // glyf + gvar, variable
	"ot/toys/CFF2-VF.otf",              // CFF2 variable
	"ot/toys/CFFTest.otf",              // CFF
	"ot/morx/Ten.ttf",                  // AAT morx
	"ot/toys/CBLC2.ttf",                // colour bitmaps
	"ot/collections/Gacha_9.dfont",     // bloc/bdat bitmaps, index subtables of formats 1 and 2 (3 KiB)
	"ot/toys/gpos/GPOSCursive.ttf",     // GSUB/GPOS/GDEF
	"ot/common/SourceSans-VF-HVAR.ttf", // larger variable font with HVAR and layout tables
}

type c17font struct {
	name string
	ft   *font.Font
	text []rune
	axis ot.Tag
	max  float32
	// cmapOnly: a font added for its character map implementation: explored with the cmap, FontMap and shaping operations only
	cmapOnly bool
}

var (
	c17fontsOnce sync.Once
	c17fonts     []*c17font
)

func c17load() []*c17font {
	c17fontsOnce.Do(func() {
		for _, n := range c17FontFiles {
			f := corpus.Get(n)
			if f == nil {
				continue
			}
			lds := corpus.Loaders(f)
			if len(lds) == 0 {
				continue
			}
			ft, err := font.NewFont(lds[0])
			if err != nil {
				continue
			}
			cf := &c17font{name: n, ft: ft}
			cf.text = c17text(ft)
			if axes := corpus.Axes(lds[0]); len(axes) > 0 {
				cf.axis, cf.max = axes[0].Tag, axes[0].Maximum
			}
			c17fonts = append(c17fonts, cf)
		}
		// one font per character map implementation (the iterators and remappers differ), and a synthetic legacy symbol font
		extra := map[string][]byte{"synthetic symbol font": c11SymbolFont(false)}
		for _, f := range c11CmapKinds() {
			extra[f.Name] = f.Data
		}
		var names []string
		for n := range extra {
			names = append(names, n)
		}
		sort.Strings(names)
		have := map[string]bool{}
		for _, cf := range c17fonts {
			have[cf.name] = true
		}
		for _, n := range names {
			if have[n] || extra[n] == nil {
				continue
			}
			ld, err := ot.NewLoader(bytes.NewReader(extra[n]))
			if err != nil {
				continue
			}
			ft, err := font.NewFont(ld)
			if err != nil {
				continue
			}
			cf := &c17font{name: n, ft: ft, cmapOnly: true}
			cf.text = c17text(ft)
			c17fonts = append(c17fonts, cf)
		}
	})
	return c17fonts
}

// c17text picks three mapped runes with lookups only: the harness must not run an operation under test (Cmap.Iter may
// build a lazy memo) before the monitor watches
func c17text(ft *font.Font) []rune {
	var text []rune
	for r := rune(0x21); r < 0x3100 && len(text) < 3; r++ {
		if g, ok := ft.NominalGlyph(r); ok && g != 0 {
			text = append(text, r)
		}
	}
	for r := rune(0xF020); r < 0xF100 && len(text) < 3; r++ {
		if g, ok := ft.NominalGlyph(r); ok && g != 0 {
			text = append(text, r)
		}
	}
	for len(text) < 3 {
		text = append(text, 'a')
	}
	return text
}

// per-thread state: what a goroutine owns
type c17thread struct {
	face   *font.Face
	shaper shaping.HarfbuzzShaper
	buf    *harfbuzz.Buffer
	seg    shaping.Segmenter
	fm     *fontscan.FontMap
}

const c17nOps = 9

var c17opNames = [c17nOps]string{"NewFace+metrics", "cmap", "glyph-queries", "SetVariations+queries", "Shaper.Shape", "Buffer.Shape-rtl", "FontMap+Split", "ppem+GlyphData", "Describe+segmenter"}

func outlineSig(d font.GlyphData) string {
	switch d := d.(type) {
	case font.GlyphOutline:
		return fmt.Sprintf("outline%d:%x", len(d.Segments), mc.HashStr(fmt.Sprint(d.Segments)))
	case font.GlyphBitmap:
		return fmt.Sprintf("bitmap%d:%dx%d:%x", len(d.Data), d.Width, d.Height, mc.HashStr(string(d.Data)))
	case font.GlyphSVG:
		return fmt.Sprintf("svg%d", len(d.Source))
	}
	return "none"
}

// c17op runs one operation of a thread on the shared font and returns its observable result
func c17op(cf *c17font, th *c17thread, op int) string {
	ft := cf.ft
	if th.face == nil {
		th.face = font.NewFace(ft)
	}
	face := th.face
	var b strings.Builder
	switch op {
	case 0:
		th.face = font.NewFace(ft)
		face = th.face
		h, ok := face.FontHExtents()
		v, ok2 := face.FontVExtents()
		fmt.Fprint(&b, ft.Upem(), h, ok, v, ok2, face.LineMetric(font.XHeight), face.LineMetric(font.UnderlinePosition), face.LineMetric(font.CapHeight))
	case 1:
		for _, r := range append([]rune{'A', 0x627, 0x4E2D, 0x10FFFF}, cf.text...) {
			g, ok := ft.NominalGlyph(r)
			g2, ok2 := ft.VariationGlyph(r, 0xFE0F)
			fmt.Fprint(&b, g, ok, g2, ok2, ";")
		}
		// the whole iteration, as a set (the order of a format 0 character map is the order of a Go map)
		var pairs []uint64
		for it := ft.Cmap.Iter(); it.Next() && len(pairs) < 70000; {
			r, g := it.Char()
			pairs = append(pairs, uint64(r)<<32|uint64(g))
		}
		sort.Slice(pairs, func(i, j int) bool { return pairs[i] < pairs[j] })
		fmt.Fprint(&b, len(pairs), mc.HashStr(fmt.Sprint(pairs)))
	case 2:
		for _, g := range []font.GID{1, 2, 3, 4, 0xFFFF} {
			e, ok := face.GlyphExtents(g)
			x, y, ok2 := face.GlyphVOrigin(g)
			fmt.Fprint(&b, face.HorizontalAdvance(g), face.VerticalAdvance(g), e, ok, x, y, ok2, outlineSig(face.GlyphData(g)), ft.GlyphName(g), ";")
		}
	case 3:
		if cf.axis != 0 {
			face.SetVariations([]font.Variation{{Tag: cf.axis, Value: cf.max}})
		}
		for _, g := range []font.GID{1, 2} {
			e, ok := face.GlyphExtents(g)
			fmt.Fprint(&b, face.Coords(), face.HorizontalAdvance(g), e, ok, outlineSig(face.GlyphData(g)), ";")
		}
		h, _ := face.FontHExtents()
		fmt.Fprint(&b, h, face.LineMetric(font.XHeight))
		face.SetVariations(nil)
	case 4:
		out := th.shaper.Shape(shaping.Input{Text: cf.text, RunStart: 0, RunEnd: len(cf.text), Direction: di.DirectionLTR, Face: face, Size: fixed.I(16), Script: language.LookupScript(cf.text[0]), Language: language.NewLanguage("en")})
		fmt.Fprint(&b, out.Advance, out.LineBounds, out.GlyphBounds)
		for _, g := range out.Glyphs {
			fmt.Fprint(&b, g.GlyphID, g.ClusterIndex, g.XAdvance, g.XOffset, g.YOffset, g.Width, g.Height, ";")
		}
	case 5:
		if th.buf == nil {
			th.buf = harfbuzz.NewBuffer()
		}
		hb := th.buf
		hb.Clear()
		hb.Props = harfbuzz.SegmentProperties{Direction: harfbuzz.RightToLeft, Script: language.Arabic}
		hb.Flags = harfbuzz.Bot | harfbuzz.Eot
		text := append(append([]rune{}, cf.text...), 0x627, 0x644, 0x301)
		hb.AddRunes(text, 0, len(text))
		hb.Shape(harfbuzz.NewFont(face), []harfbuzz.Feature{{Tag: ot.MustNewTag("liga"), Value: 0, Start: harfbuzz.FeatureGlobalStart, End: harfbuzz.FeatureGlobalEnd}})
		for i, in := range hb.Info {
			fmt.Fprint(&b, in.Glyph, in.Cluster, in.Mask&harfbuzz.GlyphUnsafeToBreak, hb.Pos[i].XAdvance, hb.Pos[i].XOffset, hb.Pos[i].YOffset, ";")
		}
	case 6:
		if th.fm == nil {
			th.fm = fontscan.NewFontMap(nil)
			th.fm.AddFace(face, fontscan.Location{File: cf.name}, ft.Describe())
			th.fm.SetQuery(fontscan.Query{Families: []string{ft.Describe().Family}})
		}
		text := append(append([]rune{}, cf.text...), ' ', 0x5D0, '1', ')')
		for _, in := range th.seg.Split(shaping.Input{Text: text, RunStart: 0, RunEnd: len(text), Direction: di.DirectionLTR, Face: face, Size: fixed.I(12), Script: language.Latin, Language: language.NewLanguage("en")}, th.fm) {
			fmt.Fprint(&b, in.RunStart, in.RunEnd, in.Direction, in.Script, in.Face == face, ";")
		}
		fmt.Fprint(&b, th.fm.ResolveFace(cf.text[0]) == face, th.fm.ResolveFace(0x10FFFF) != nil)
	case 7:
		face.SetPpem(20, 20)
		for _, g := range []font.GID{1, 2} {
			e, ok := face.GlyphExtents(g)
			fmt.Fprint(&b, e, ok, outlineSig(face.GlyphData(g)), ";")
		}
		fmt.Fprint(&b, ft.BitmapSizes())
		face.SetPpem(0, 0)
	case 8:
		fmt.Fprint(&b, ft.Describe(), ft.IsMonospace())
		var sg segmenter.Segmenter
		sg.Init(append(append([]rune{}, cf.text...), ' ', 'a', 0x301, '\n', 'b'))
		for it := sg.LineIterator(); it.Next(); {
			l := it.Line()
			fmt.Fprint(&b, l.Offset, len(l.Text), l.IsMandatoryBreak, ";")
		}
		for it := sg.GraphemeIterator(); it.Next(); {
			fmt.Fprint(&b, it.Grapheme().Offset, ",")
		}
	}
	return b.String()
}

// ---- shared roots -------------------------------------------------------------------------------

type c17root struct {
	name  string
	ptr   any
	small bool
}

var (
	c17rootsOnce sync.Once
	c17roots     []c17root
)

var c17onceType, c17mutexType = reflect.TypeOf(sync.Once{}), reflect.TypeOf(sync.Mutex{})

func c17skipType(t reflect.Type) bool {
	// the one synchronisation primitive of the repository: its state is legitimately written under its own protocol
	return t == c17onceType || t == c17mutexType
}

func c17globals() []c17root {
	c17rootsOnce.Do(func() {
		add := func(pkg string, m map[string]any) {
			var names []string
			for n := range m {
				names = append(names, n)
			}
			sort.Strings(names)
			for _, n := range names {
				h := mc.NewDeepHasher()
				h.SkipType = c17skipType
				h.Sum(m[n])
				c17roots = append(c17roots, c17root{name: pkg + "." + n, ptr: m[n], small: h.Nodes <= 64})
			}
		}
		add("di", di.VerifGlobals())
		add("font", font.VerifGlobals())
		add("font/cff", fcff.VerifGlobals())
		add("font/cff/interpreter", fps.VerifGlobals())
		add("font/opentype", ot.VerifGlobals())
		add("font/opentype/tables", tables.VerifGlobals())
		add("fontscan", fontscan.VerifGlobals())
		add("harfbuzz", harfbuzz.VerifGlobals())
		add("language", language.VerifGlobals())
		add("segmenter", segmenter.VerifGlobals())
		add("shaping", shaping.VerifGlobals())
		add("unicodedata", unicodedata.VerifGlobals())
	})
	return c17roots
}

// c17hash returns the digest of every root (all == false: only the small package-level variables)
func c17hash(cf *c17font, all bool) []uint64 {
	roots := c17globals()
	out := make([]uint64, 0, len(roots)+1)
	h := mc.NewDeepHasher()
	h.SkipType = c17skipType
	out = append(out, h.Sum(cf.ft))
	for _, rt := range roots {
		if !all && !rt.small {
			out = append(out, 0)
			continue
		}
		h := mc.NewDeepHasher()
		h.SkipType = c17skipType
		out = append(out, h.Sum(rt.ptr))
	}
	return out
}

func c17diff(a, b []uint64) string {
	roots := c17globals()
	for i := range a {
		if a[i] != b[i] {
			if i == 0 {
				return "the shared *font.Font"
			}
			return "package-level variable " + roots[i-1].name
		}
	}
	return ""
}

// ---- exploration -----------------------------------------------------------------------------------

// solo results of every thread program of length <= 2 (cached per font)
var c17solo = map[string][]string{}

func c17soloRun(r *mc.Reporter, cf *c17font, prog []int, monitor bool) []string {
	key := cf.name + fmt.Sprint(prog)
	if res, ok := c17solo[key]; ok && !monitor {
		return res
	}
	th := &c17thread{}
	var res []string
	for i, op := range prog {
		var before []uint64
		if monitor {
			before = c17hash(cf, true)
		}
		var out string
		cs := &c17case{Font: cf.name, Programs: [][]int{prog}, Step: i, What: c17opNames[op]}
		if !r.Guard("C17", cs, func() { out = c17op(cf, th, op) }) {
			return nil
		}
		if monitor {
			r.Eval()
			r.Count("states", 1)
			r.Count("transitions", 1)
			if d := c17diff(before, c17hash(cf, true)); d != "" {
				r.Violation("C17:shared-write:"+c17opNames[op]+":"+d, cs, fmt.Sprintf("%s: operation %q run by a single goroutine writes to %s (memory that every goroutine sharing the font reads)", cf.name, c17opNames[op], d))
			}
		}
		res = append(res, out)
	}
	c17solo[key] = res
	return res
}

// interleavings of the thread programs: every sequence of thread indices using thread t len(progs[t]) times
func c17schedules(lens []int) [][]int {
	var out [][]int
	total := 0
	for _, l := range lens {
		total += l
	}
	left := append([]int{}, lens...)
	cur := make([]int, 0, total)
	var rec func()
	rec = func() {
		if len(cur) == total {
			out = append(out, append([]int{}, cur...))
			return
		}
		for t := range left {
			if left[t] > 0 {
				left[t]--
				cur = append(cur, t)
				rec()
				cur = cur[:len(cur)-1]
				left[t]++
			}
		}
	}
	rec()
	return out
}

func c17explore(r *mc.Reporter, cf *c17font, progs [][]int) {
	var solo [][]string
	lens := make([]int, len(progs))
	for t, p := range progs {
		solo = append(solo, c17soloRun(r, cf, p, false))
		lens[t] = len(p)
		if solo[t] == nil {
			return
		}
	}
	for _, sched := range c17schedules(lens) {
		if r.Expired() {
			return
		}
		r.Eval()
		threads := make([]*c17thread, len(progs))
		for t := range threads {
			threads[t] = &c17thread{}
		}
		pc := make([]int, len(progs))
		before := c17hash(cf, false)
		sig := ""
		for step, t := range sched {
			op := progs[t][pc[t]]
			cs := &c17case{Font: cf.name, Programs: progs, Schedule: sched, Step: step, What: c17opNames[op]}
			var out string
			if !r.Guard("C17", cs, func() { out = c17op(cf, threads[t], op) }) {
				return
			}
			r.Count("transitions", 1)
			after := c17hash(cf, false)
			if d := c17diff(before, after); d != "" {
				r.Violation("C17:shared-write:"+c17opNames[op]+":"+d, cs, fmt.Sprintf("%s: step %d (%q of thread %d) in schedule %v of programs %v writes to %s", cf.name, step, c17opNames[op], t, sched, progs, d))
				return
			}
			if out != solo[t][pc[t]] {
				r.Violation("C17:result-differs-from-solo:"+c17opNames[op], cs, fmt.Sprintf("%s: step %d (%q of thread %d) in schedule %v of programs %v returns %s, alone %s", cf.name, step, c17opNames[op], t, sched, progs, mc.Trunc(out, 200), mc.Trunc(solo[t][pc[t]], 200)))
				return
			}
			pc[t]++
			sig += strconv.Itoa(t)
		}
		r.Count("states", int64(len(sched)))
		r.OutcomeStr(fmt.Sprint(len(progs), mc.HashStr(fmt.Sprint(solo))%64), true)
		if r.WantSample() {
			r.Sample(c17case{Font: cf.name, Programs: progs, Schedule: sched})
		}
	}
}

func c17ops(cf *c17font) []int {
	if cf.cmapOnly {
		return []int{0, 1, 4, 6}
	}
	out := make([]int, c17nOps)
	for i := range out {
		out[i] = i
	}
	return out
}

func c17has(ops []int, op int) bool {
	for _, o := range ops {
		if o == op {
			return true
		}
	}
	return false
}

func c17programs(cf *c17font, n int) [][]int {
	var out [][]int
	cur := make([]int, n)
	ops := c17ops(cf)
	var rec func(i int)
	rec = func(i int) {
		if i == n {
			out = append(out, append([]int{}, cur...))
			return
		}
		for _, op := range ops {
			cur[i] = op
			rec(i + 1)
		}
	}
	rec(0)
	return out
}

func c17Shards(tier string) []string {
	var s []string
	for fi := range c17load() {
		s = append(s, fmt.Sprintf("solo/%d", fi))
		for a := 0; a < c17nOps; a++ {
			s = append(s, fmt.Sprintf("pair/%d/%d", fi, a))
			s = append(s, fmt.Sprintf("triple/%d/%d", fi, a))
			if tier == "thorough" {
				for a2 := 0; a2 < c17nOps; a2++ {
					s = append(s, fmt.Sprintf("pair32/%d/%d/%d", fi, a, a2))
				}
			}
		}
	}
	s = append(s, "race")
	return s
}

func c17Run(tier, shard string, r *mc.Reporter) {
	parts := strings.Split(shard, "/")
	if parts[0] == "race" {
		c17race(tier, r)
		return
	}
	fonts := c17load()
	fi, _ := strconv.Atoi(parts[1])
	if fi >= len(fonts) {
		return
	}
	cf := fonts[fi]
	if tier == "quick" && corpus.Get(cf.name) != nil && len(corpus.Get(cf.name).Data) > 100<<10 && parts[0] != "solo" {
		// the large font: pairs of single operations only in the quick tier
		if parts[0] == "pair" {
			a, _ := strconv.Atoi(parts[2])
			for b := 0; b < c17nOps; b++ {
				c17explore(r, cf, [][]int{{a}, {b}})
			}
		}
		return
	}
	ops := c17ops(cf)
	if len(parts) > 2 {
		if a, _ := strconv.Atoi(parts[2]); !c17has(ops, a) {
			return
		}
	}
	switch parts[0] {
	case "solo":
		// write monitor over every sequential execution, all package-level variables
		for _, p := range c17programs(cf, 2) {
			if r.Expired() {
				break
			}
			c17soloRun(r, cf, p, true)
		}
		r.Count("package_level_variables_monitored", int64(len(c17globals())))
	case "pair":
		a, _ := strconv.Atoi(parts[2])
		for _, a2 := range ops {
			for _, pb := range c17programs(cf, 2) {
				if r.Expired() {
					break
				}
				c17explore(r, cf, [][]int{{a, a2}, pb})
			}
		}
	case "pair32":
		// thorough: a thread of 3 operations against a thread of 2 operations (10 interleavings each)
		if corpus.Get(cf.name) != nil && len(corpus.Get(cf.name).Data) > 100<<10 {
			return
		}
		a, _ := strconv.Atoi(parts[2])
		a2, _ := strconv.Atoi(parts[3])
		if cf.cmapOnly {
			return
		}
		for a3 := 0; a3 < c17nOps; a3++ {
			for _, pb := range c17programs(cf, 2) {
				if r.Expired() {
					break
				}
				c17explore(r, cf, [][]int{{a, a2, a3}, pb})
			}
		}
	case "triple":
		a, _ := strconv.Atoi(parts[2])
		for _, b := range ops {
			for _, c := range ops {
				c17explore(r, cf, [][]int{{a}, {b}, {c}})
			}
		}
	}
	if r.Expired() {
		r.Incomplete("deadline in " + shard)
	}
}

// ---- free-running pass under the race detector (separate binary, sampling) ------------------------

func c17race(tier string, r *mc.Reporter) {
	bin := os.Getenv("VERIF_C17_RACE_BIN")
	if bin == "" {
		r.Note("race binary not built: the free-running pass did not run")
		r.Count("race_pass_skipped", 1)
		return
	}
	rounds := "20"
	if tier == "thorough" {
		rounds = "200"
	}
	scratch, _ := os.MkdirTemp(mc.Scratch(), "c17race")
	defer os.RemoveAll(scratch)
	binArgs := strings.Fields(bin)
	cmd := exec.Command(binArgs[0], append(binArgs[1:], "-rounds", rounds, "-goroutines", "64", "-scratch", scratch)...)
	cmd.Env = append(os.Environ(), "GORACE=halt_on_error=0 history_size=3", "GOMAXPROCS=16")
	var out bytes.Buffer
	cmd.Stdout = &out
	cmd.Stderr = &out
	err := cmd.Run()
	r.Eval()
	s := out.String()
	n := strings.Count(s, "WARNING: DATA RACE")
	r.Count("race_pass_rounds(sampling, not exhaustive)", 1)
	r.Note("free-running race detector pass: " + strings.TrimSpace(lastLine(s)))
	if n > 0 {
		// key: the repository frames of the first report
		var frames []string
		for _, l := range strings.Split(s, "\n") {
			l = strings.TrimSpace(l)
			if strings.HasPrefix(l, "github.com/go-text/typesetting/") {
				f := strings.TrimPrefix(l, "github.com/go-text/typesetting/")
				if i := strings.LastIndex(f, "("); i > 0 {
					f = f[:i]
				}
				frames = append(frames, f)
				if len(frames) == 1 {
					break
				}
			}
		}
		r.Violation("C17:data-race:"+strings.Join(frames, "|"), &c17case{What: "race"}, fmt.Sprintf("%d data race reports by the race detector in the free-running pass; first report:\n%s", n, mc.Trunc(s[strings.Index(s, "WARNING: DATA RACE"):], 2500)))
	} else if strings.Contains(s, "WRONG BITMAP ANSWER") {
		r.Violation("C17:race-pass:wrong-bitmap-answer", &c17case{What: "race"}, "a goroutine sharing a bitmap font got another answer than alone: "+mc.Trunc(s[strings.Index(s, "WRONG BITMAP ANSWER"):], 600))
	} else if err != nil {
		r.Violation("C17:race-pass-failed", &c17case{What: "race"}, fmt.Sprintf("the free-running pass ended with %v: %s", err, mc.Trunc(s, 1500)))
	}
	r.OutcomeStr("race-pass", true)
	r.OutcomeStr("race-pass-2", true)
}

func lastLine(s string) string {
	ls := strings.Split(strings.TrimSpace(s), "\n")
	return ls[len(ls)-1]
}

func c17Replay(raw json.RawMessage, r *mc.Reporter) {
	var c c17case
	if json.Unmarshal(raw, &c) != nil {
		return
	}
	if c.What == "race" {
		c17race("quick", r)
		return
	}
	for _, cf := range c17load() {
		if cf.name != c.Font {
			continue
		}
		if len(c.Programs) == 1 {
			c17soloRun(r, cf, c.Programs[0], true)
		} else {
			c17explore(r, cf, c.Programs)
		}
	}
}

var _ = filepath.Join

func init() {
	Register(&mc.Check{
		ID: "C17", Level: "model_checking",
		Rule:        "for every interleaving (operation granularity) of 2 threads x 2 operations and 3 threads x 1 operation over 9 colliding operations on 8 shared fonts (plus one per character map implementation): no transition changes the deep hash of the shared *font.Font or of any package-level variable of the repository, and every operation returns what its thread returns alone",
		Assumptions: []string{"operations are atomic steps: interleavings inside an operation are not explored; a write undone before the operation returns is only seen by the free-running race detector pass (sampling)", "the state of sync.Once/sync.Mutex values is not hashed", "package-level variables are listed from the source of every repository package at build time (tools/c17gen); memory only reachable from other packages (x/text, x/image) is not monitored", "the sync.Once harness (concurrent UseSystemFonts) is only exercised by the race detector pass"},
		Shards:      c17Shards, Run: c17Run, Replay: c17Replay,
		MemLimit: 8 << 30,
		Bounds:   map[string]string{"quick": "7 fonts; solo write monitor over all programs of 2 operations (all package-level variables); all pairs of 2-operation programs and all triples of 1-operation programs x all interleavings (the 800 KiB font: pairs of single operations); race pass 20 rounds x 64 goroutines + 16 goroutines x 1500 bitmap glyphs on the two large bitmap fonts (index formats 1, 2, 5)", "thorough": "same exploration for all 7 fonts, plus every 3-operation program against every 2-operation program x 10 interleavings on the 6 small fonts; race pass 200 rounds x 64 goroutines"},
	})
}

// c17raceBody is the free-running body (run from the -race build of this binary): goroutines share the parsed
// fonts and run random-free, fixed programs of the same operations; plus the sync.Once harness.
func c17raceBody(args []string) {
	rounds, gor, scratch := 20, 64, os.TempDir()
	for i := 0; i+1 < len(args); i += 2 {
		switch args[i] {
		case "-rounds":
			rounds, _ = strconv.Atoi(args[i+1])
		case "-goroutines":
			gor, _ = strconv.Atoi(args[i+1])
		case "-scratch":
			scratch = args[i+1]
		}
	}
	fonts := c17load()
	// a scratch font directory for the system font index
	fontDir := filepath.Join(scratch, "fonts")
	os.MkdirAll(fontDir, 0o755)
	for i, cf := range fonts {
		if i < 3 {
			os.WriteFile(filepath.Join(fontDir, filepath.Base(cf.name)), corpus.Get(cf.name).Data, 0o644)
		}
	}
	os.Setenv("XDG_DATA_HOME", scratch)
	os.Setenv("XDG_DATA_DIRS", scratch)
	os.Setenv("HOME", scratch)
	ops := 0
	for round := 0; round < rounds; round++ {
		var wg sync.WaitGroup
		start := make(chan struct{})
		for g := 0; g < gor; g++ {
			wg.Add(1)
			go func(g int) {
				defer wg.Done()
				<-start
				cf := fonts[(g+round)%len(fonts)]
				th := &c17thread{}
				for k := 0; k < 3; k++ {
					c17op(cf, th, (g+k*4+round)%c17nOps)
				}
			}(g)
		}
		close(start)
		wg.Wait()
		ops += gor * 3
		// the sync.Once harness: concurrent first use of the system fonts, index reset between rounds
		if round%5 == 0 {
			fontscan.VerifResetSystemFonts()
			var wg2 sync.WaitGroup
			start2 := make(chan struct{})
			for g := 0; g < 8; g++ {
				wg2.Add(1)
				go func(g int) {
					defer wg2.Done()
					<-start2
					fm := fontscan.NewFontMap(nil)
					fm.UseSystemFonts(filepath.Join(scratch, "cache"))
					fm.SetQuery(fontscan.Query{Families: []string{"sans-serif"}})
					fm.ResolveFace('a')
				}(g)
			}
			close(start2)
			wg2.Wait()
		}
	}
	wrong := c17raceBitmaps()
	fmt.Printf("race pass done: %d rounds x %d goroutines, %d operations, %d wrong bitmap answers\n", rounds, gor, ops, wrong)
}

// c17raceBitmaps: the bitmap strikes with index subtables of every format (1, 2 and 5 occur in the corpus only in files too
// large for the deep-hash monitor): 16 goroutines, each with its own Face on the shared Font, read the glyph data and extents
// of glyphs spread over the font; every answer is compared with what a single goroutine got before
func c17raceBitmaps() (wrong int) {
	for _, n := range []string{"ot/bitmap/IBM3161-bitmap.otb", "ot/collections/msgothic.ttc"} {
		f := corpus.Get(n)
		if f == nil {
			continue
		}
		lds := corpus.Loaders(f)
		if len(lds) == 0 {
			continue
		}
		ft, err := font.NewFont(lds[0])
		if err != nil {
			continue
		}
		ng := 3000 // both files hold more glyphs than that; a glyph index outside the font is an answer like another
		var gids []font.GID
		for i := 0; i < 1500; i++ {
			gids = append(gids, font.GID((3+i*37)%ng))
		}
		sig := func(face *font.Face, g font.GID) string {
			e, ok := face.GlyphExtents(g)
			return fmt.Sprint(e, ok, outlineSig(face.GlyphData(g)))
		}
		solo := font.NewFace(ft)
		solo.SetPpem(16, 16)
		want := make([]string, len(gids))
		for i, g := range gids {
			want[i] = sig(solo, g)
		}
		var wg sync.WaitGroup
		var bad int64
		start := make(chan struct{})
		for t := 0; t < 16; t++ {
			wg.Add(1)
			go func(t int) {
				defer wg.Done()
				face := font.NewFace(ft)
				face.SetPpem(16, 16)
				<-start
				for k := range gids {
					i := (k + t*91) % len(gids)
					if got := sig(face, gids[i]); got != want[i] {
						if atomic.AddInt64(&bad, 1) == 1 {
							fmt.Printf("WRONG BITMAP ANSWER %s glyph %d: %s, alone %s\n", n, gids[i], got, want[i])
						}
					}
				}
			}(t)
		}
		close(start)
		wg.Wait()
		wrong += int(bad)
	}
	return wrong
}

func init() { ExtraCommands["c17race"] = c17raceBody }
