package checks

// C16 — The system font index survives persistence, corruption and incremental refresh.

import (
	"bytes"
	"compress/gzip"
	"encoding/json"
	"fmt"
	"io"
	"log"
	"math"
	"os"
	"path/filepath"
	"reflect"
	"runtime"
	"sort"
	"strconv"
	"strings"
	"time"

	"github.com/go-text/typesetting/font"
	"github.com/go-text/typesetting/fontscan"
	"github.com/go-text/typesetting/language"

	"verif/corpus"
	"verif/mc"
)

type c16case struct {
	Part   string   `json:"part"`
	Index  string   `json:"index,omitempty"`
	Pos    int      `json:"pos,omitempty"`
	Val    int      `json:"val,omitempty"`
	Layer  string   `json:"layer,omitempty"`
	Ops    []string `json:"ops,omitempty"`
	File   string   `json:"file,omitempty"`
	Detail string   `json:"detail,omitempty"`
}

var c16Logger = log.New(io.Discard, "", 0)

// ---- building indexes --------------------------------------------------------------------------

func c16Footprint(f *corpus.File) []fontscan.Footprint {
	var out []fontscan.Footprint
	for i, ld := range corpus.Loaders(f) {
		func() {
			defer func() { recover() }()
			fp, err := fontscan.VerifFootprintFromLoader(ld)
			if err == nil {
				fp.Location = fontscan.Location{File: "/fonts/" + f.Name, Index: uint16(i)}
				out = append(out, fp)
			}
		}()
	}
	return out
}

func c16Synthetic() []fontscan.VerifFile {
	var full, sparse fontscan.RuneSet
	for r := rune(0); r < 0x110000; r += 0x100 {
		full.Add(r)
		full.Add(r + 0xFF)
	}
	for _, r := range []rune{0, 31, 32, 255, 256, 0xFFFF, 0x10000, 0x10FFFF} {
		sparse.Add(r)
	}
	var scripts255 fontscan.ScriptSet
	for i := 0; i < 255; i++ {
		scripts255 = append(scripts255, language.Script(0x41000000+uint32(i)))
	}
	var langs fontscan.LangSet
	for i := range langs {
		langs[i] = 0xA5A5A5A5A5A5A5A5 ^ uint64(i)
	}
	long := strings.Repeat("é", 65535/2) + "x" // 65535 bytes
	nan := math.Float32frombits(0x7FC00001)
	fps := []fontscan.Footprint{
		{},
		{Location: fontscan.Location{File: "", Index: 0xFFFF, Instance: 0xFFFF}, Family: "", Runes: fontscan.RuneSet{}, Scripts: fontscan.ScriptSet{}},
		{Location: fontscan.Location{File: long}, Family: long, Runes: full, Scripts: scripts255, Langs: langs,
			Aspect: font.Aspect{Style: 255, Weight: font.Weight(float32(math.Inf(1))), Stretch: font.Stretch(nan)}},
		{Location: fontscan.Location{File: "a\x00b"}, Family: "fam\nily", Runes: sparse, Scripts: fontscan.ScriptSet{language.Latin}, Aspect: font.Aspect{Style: 1, Weight: 399.5, Stretch: 0.5}},
	}
	return []fontscan.VerifFile{
		{Path: "/empty-footprints", ModTime: 0},
		{Path: "", ModTime: math.MinInt64, Footprints: fps[:1]},
		{Path: long, ModTime: math.MaxInt64, Footprints: fps},
		{Path: "/x", ModTime: -1, Footprints: fps[1:2]},
	}
}

// image compares indexes structurally; NaN floats are compared by bits
func c16Image(files []fontscan.VerifFile) string {
	var sb strings.Builder
	for _, f := range files {
		fmt.Fprintf(&sb, "F %q %d %d\n", f.Path, f.ModTime, len(f.Footprints))
		for _, fp := range f.Footprints {
			fmt.Fprintf(&sb, " P %q %d %d %q %x %v %v %d %08x %08x %v\n", fp.Location.File, fp.Location.Index, fp.Location.Instance, fp.Family,
				mc.HashBytes(fp.Runes.VerifSerialize()), []language.Script(fp.Scripts), fp.Langs, fp.Aspect.Style,
				math.Float32bits(float32(fp.Aspect.Weight)), math.Float32bits(float32(fp.Aspect.Stretch)), fp.VerifIsUserProvided())
		}
	}
	return sb.String()
}

// ---- (a) round trip -------------------------------------------------------------------------------

func c16RoundTrip(r *mc.Reporter, name string, files []fontscan.VerifFile) {
	cs := &c16case{Part: "roundtrip", Index: name}
	r.Eval()
	r.Guard("C16", cs, func() {
		idx := fontscan.VerifNewIndex(files)
		var buf bytes.Buffer
		if err := idx.SerializeTo(&buf); err != nil {
			r.Violation("C16:roundtrip:serialize-error", cs, err.Error())
			return
		}
		back, err := fontscan.VerifDeserializeIndex(bytes.NewReader(buf.Bytes()))
		if err != nil {
			r.Violation("C16:roundtrip:deserialize-error", cs, err.Error())
			return
		}
		if a, b := c16Image(files), c16Image(back.Files()); a != b {
			d := 0
			for d < len(a) && d < len(b) && a[d] == b[d] {
				d++
			}
			lo := d - 80
			if lo < 0 {
				lo = 0
			}
			r.Violation("C16:roundtrip:differs", cs, fmt.Sprintf("index read back differs near %q vs %q", mc.Trunc(a[lo:], 200), mc.Trunc(b[lo:], 200)))
		}
		r.OutcomeStr(fmt.Sprintf("rt %d files %d bytes", len(files), buf.Len()/64), len(files) > 0)
	})
}

// ---- (b) crash points and corruption ---------------------------------------------------------------

func c16Indexes() map[string][]fontscan.VerifFile {
	files := corpus.Files()
	var small []fontscan.VerifFile
	for i := range files {
		if len(files[i].Data) > 2000 || len(small) >= 3 {
			continue
		}
		fps := c16Footprint(&files[i])
		if len(fps) == 0 {
			continue
		}
		small = append(small, fontscan.VerifFile{Path: "/fonts/" + files[i].Name, ModTime: int64(1000 + i), Footprints: fps})
	}
	one := small[:1]
	three := append(append([]fontscan.VerifFile(nil), small...), fontscan.VerifFile{Path: "/fonts/not-a-font.ttf", ModTime: 5})
	return map[string][]fontscan.VerifFile{"one": one, "three": three}
}

func c16Payload(gz []byte) []byte {
	zr, err := gzip.NewReader(bytes.NewReader(gz))
	if err != nil {
		return nil
	}
	b, _ := io.ReadAll(zr)
	return b
}

func c16Gzip(payload []byte) []byte {
	var buf bytes.Buffer
	w := gzip.NewWriter(&buf)
	w.Write(payload)
	w.Close()
	return buf.Bytes()
}

// judge one faulted file content
func c16Faulted(r *mc.Reporter, cs *c16case, data []byte, original string) (status string) {
	r.Eval()
	var ms0, ms1 runtime.MemStats
	runtime.ReadMemStats(&ms0)
	var idx fontscan.VerifIndex
	var err error
	if !r.Guard("C16", cs, func() { idx, err = fontscan.VerifDeserializeIndex(bytes.NewReader(data)) }) {
		return "panic"
	}
	runtime.ReadMemStats(&ms1)
	if d := ms1.TotalAlloc - ms0.TotalAlloc; d > 64<<20+256*uint64(len(data)) {
		r.Violation("C16:corruption:allocation", cs, fmt.Sprintf("deserializing %d bytes allocated %d bytes", len(data), d))
	}
	if err != nil {
		return "error"
	}
	// a returned index must be usable: serialisable again, every query total
	ok := r.Guard("C16", cs, func() {
		var buf bytes.Buffer
		if e := idx.SerializeTo(&buf); e != nil {
			r.Violation("C16:corruption:not-reserializable", cs, e.Error())
		}
		for _, fp := range idx.Flatten() {
			for _, ru := range []rune{0, 'a', 0xFFFF, 0x10FFFF} {
				fp.Runes.Contains(ru)
			}
			fp.Runes.Len()
			fp.Langs.Contains(1)
		}
	})
	if !ok {
		return "panic"
	}
	if c16Image(idx.Files()) == original {
		return "same"
	}
	return "different"
}

func c16Crash(r *mc.Reporter, name string, files []fontscan.VerifFile, sh, nsh int, tier string) {
	idx := fontscan.VerifNewIndex(files)
	var buf bytes.Buffer
	if err := idx.SerializeTo(&buf); err != nil {
		return
	}
	gz := buf.Bytes()
	original := c16Image(files)
	payload := c16Payload(gz)
	count := func(layer, st string) { r.Count("faults_"+layer+"_"+st, 1) }
	k := 0
	// every prefix of the compressed stream (what a crash during os.Create+write leaves)
	for n := 0; n <= len(gz); n++ {
		k++
		if k%nsh != sh {
			continue
		}
		st := c16Faulted(r, &c16case{Part: "crash", Index: name, Layer: "prefix", Pos: n}, gz[:n], original)
		count("prefix", st)
		r.OutcomeStr("prefix-"+st, st != "error")
		if st == "different" {
			r.Violation("C16:crash:prefix-accepted-with-other-content", &c16case{Part: "crash", Index: name, Layer: "prefix", Pos: n}, "a truncated cache file was read as a different index")
		}
	}
	// every byte x every other value, compressed stream
	vals := 255
	step := 1
	if tier == "quick" && len(gz) > 600 {
		step = 7 // quick: every 7th position of larger streams
	}
	for pos := 0; pos < len(gz); pos += step {
		for d := 1; d <= vals; d++ {
			k++
			if k%nsh != sh {
				continue
			}
			if r.Expired() {
				r.Incomplete("deadline in compressed corruption")
				return
			}
			mut := append([]byte(nil), gz...)
			mut[pos] ^= byte(d)
			st := c16Faulted(r, &c16case{Part: "crash", Index: name, Layer: "gzip", Pos: pos, Val: d}, mut, original)
			count("gzip", st)
			r.OutcomeStr("gzip-"+st, st != "error")
		}
	}
	// the same on the uncompressed payload, re-compressed (reaches the field decoders behind the CRC)
	pstep := 1
	if len(payload) > 3000 {
		pstep = len(payload) / 1500
		if tier == "quick" {
			pstep = len(payload) / 300
		}
	}
	for pos := 0; pos < len(payload); pos += pstep {
		for _, d := range []int{1, 2, 0x80, 0xFF, 0x7F, 0x40} {
			k++
			if k%nsh != sh {
				continue
			}
			if r.Expired() {
				r.Incomplete("deadline in payload corruption")
				return
			}
			mut := append([]byte(nil), payload...)
			mut[pos] ^= byte(d)
			st := c16Faulted(r, &c16case{Part: "crash", Index: name, Layer: "payload", Pos: pos, Val: d}, c16Gzip(mut), original)
			count("payload", st)
			r.OutcomeStr("payload-"+st, st != "error")
		}
	}
	// payload truncated at every length, re-compressed
	for n := 0; n < len(payload); n += pstep {
		k++
		if k%nsh != sh {
			continue
		}
		st := c16Faulted(r, &c16case{Part: "crash", Index: name, Layer: "payload-prefix", Pos: n}, c16Gzip(payload[:n]), original)
		count("payloadprefix", st)
	}
}

// ---- (c) refresh: crash states and file system histories --------------------------------------------

type c16fs struct {
	root  string
	clock int64
}

func (f *c16fs) stamp(p string, t int64) {
	tm := time.Unix(t, 0)
	os.Chtimes(p, tm, tm)
}

var c16FontData [][]byte // three distinct tiny fonts + one two-face collection if available

func c16Fonts() [][]byte {
	if c16FontData != nil {
		return c16FontData
	}
	files := corpus.Files()
	seenFam := map[string]bool{}
	for i := range files {
		if len(files[i].Data) > 4000 {
			continue
		}
		fps := c16Footprint(&files[i])
		if len(fps) == 0 {
			continue
		}
		key := fmt.Sprint(fps[0].Family, fps[0].Runes.Len())
		if seenFam[key] {
			continue
		}
		seenFam[key] = true
		c16FontData = append(c16FontData, files[i].Data)
		if len(c16FontData) == 2 {
			break
		}
	}
	// the third font uses another character map implementation (format 6): the scanner goes through other code for it
	if f := corpus.Get("hb/harfbuzz_reference/aots/fonts/cmap6_font1.otf"); f != nil {
		c16FontData = append(c16FontData, f.Data)
	} else {
		c16FontData = append(c16FontData, c16FontData[0])
	}
	return c16FontData
}

// the emulation of refreshSystemFontsIndex on explicit directories (DefaultFontDirectories depends on the host)
func c16Refresh(cache string, dirs []string) (fontscan.VerifIndex, error) {
	cur, _ := fontscan.VerifDeserializeIndexFile(cache)
	upd, err := fontscan.VerifScan(c16Logger, cur, dirs...)
	if err != nil {
		return upd, err
	}
	if err := upd.SerializeToFile(cache); err != nil {
		return upd, err
	}
	return upd, nil
}

func c16RefreshAfterCrash(r *mc.Reporter, scratch string) {
	fonts := c16Fonts()
	root := filepath.Join(scratch, "crashfs")
	os.RemoveAll(root)
	os.MkdirAll(filepath.Join(root, "d", "sub"), 0o755)
	paths := []string{"d/a.ttf", "d/sub/b.ttf", "d/c.txt"}
	os.WriteFile(filepath.Join(root, paths[0]), fonts[0], 0o644)
	os.WriteFile(filepath.Join(root, paths[1]), fonts[1], 0o644)
	os.WriteFile(filepath.Join(root, paths[2]), []byte("not a font"), 0o644)
	for i, p := range paths {
		tm := time.Unix(int64(1000+i), 0)
		os.Chtimes(filepath.Join(root, p), tm, tm)
	}
	dirs := []string{filepath.Join(root, "d")}
	scratchIdx, err := fontscan.VerifScan(c16Logger, fontscan.VerifIndex{}, dirs...)
	if err != nil {
		r.Violation("C16:refresh:scan-error", &c16case{Part: "refresh-crash"}, err.Error())
		return
	}
	want := c16Image(scratchIdx.Files())
	var buf bytes.Buffer
	scratchIdx.SerializeTo(&buf)
	gz := buf.Bytes()
	cache := filepath.Join(root, "cache", "index.cache")
	os.MkdirAll(filepath.Dir(cache), 0o755)
	try := func(cs *c16case, content []byte, missing bool) {
		r.Eval()
		os.Remove(cache)
		if !missing {
			os.WriteFile(cache, content, 0o644)
		}
		r.Guard("C16", cs, func() {
			got, err := c16Refresh(cache, dirs)
			if err != nil {
				r.Violation("C16:refresh:error-after-crash", cs, err.Error())
				return
			}
			if img := c16Image(got.Files()); img != want {
				r.Violation("C16:refresh:differs-after-crash", cs, "refresh from a damaged cache differs from a scan from scratch")
			}
			back, err := fontscan.VerifDeserializeIndexFile(cache)
			if err != nil || c16Image(back.Files()) != want {
				r.Violation("C16:refresh:cache-not-rewritten", cs, fmt.Sprintf("cache file after refresh: err=%v", err))
			}
		})
		r.OutcomeStr("refresh-after-crash", true)
	}
	try(&c16case{Part: "refresh-crash", Layer: "missing"}, nil, true)
	for n := 0; n <= len(gz); n++ {
		try(&c16case{Part: "refresh-crash", Layer: "prefix", Pos: n}, gz[:n], false)
	}
	for pos := 0; pos < len(gz); pos++ {
		for _, d := range []int{1, 0x80, 0xFF} {
			mut := append([]byte(nil), gz...)
			mut[pos] ^= byte(d)
			// only damaged caches the reader rejects or reads back identically are in scope here: a cache
			// accepted with other content is reported by the corruption part, a stale-but-valid cache is not a crash state
			idx, err := fontscan.VerifDeserializeIndex(bytes.NewReader(mut))
			if err == nil && c16Image(idx.Files()) != want {
				r.Count("refresh_crash_states_skipped(cache accepted with other content)", 1)
				continue
			}
			try(&c16case{Part: "refresh-crash", Layer: "gzip", Pos: pos, Val: d}, mut, false)
		}
	}
	os.RemoveAll(root)
}

// file system operations for the incremental refresh search
var c16OpNames = []string{"addA:d/a.ttf", "addB:d/a.ttf", "addA:d/sub/b.ttf", "addB:e/c.otf", "rm:d/a.ttf", "rm:d/sub/b.ttf", "touch:d/a.ttf", "older:d/a.ttf",
	"replaceB:d/a.ttf", "replaceOlderB:d/a.ttf", "garbage:d/a.ttf", "mv:d/a.ttf>d/z.ttf", "mvdir:d/sub>d/sub2", "addtxt:d/readme.txt", "symlink:e/link.ttf>d/a.ttf", "symlinkdir:e/ldir>d/sub", "addC:d/sub/b.ttf", "pkg:d/m.ttf+d/n.ttf", "addW0:d/w.woff", "addW1:d/w.woff"}

func (f *c16fs) apply(op string) bool {
	fonts := c16Fonts()
	kind, arg, _ := strings.Cut(op, ":")
	p := filepath.Join(f.root, arg)
	exists := func(p string) bool { _, err := os.Lstat(p); return err == nil }
	write := func(p string, data []byte, t int64) {
		os.MkdirAll(filepath.Dir(p), 0o755)
		os.WriteFile(p, data, 0o644)
		f.stamp(p, t)
	}
	mtime := func(p string) int64 {
		st, err := os.Stat(p)
		if err != nil {
			return 0
		}
		return st.ModTime().Unix()
	}
	f.clock += 10
	switch kind {
	case "addA", "addB", "addC":
		if exists(p) {
			return false
		}
		write(p, fonts[int(kind[3]-'A')], f.clock)
	case "addW0", "addW1": // a damaged font: WOFF whose compressed name table is shorter than announced (c16ShortWOFF)
		w := c16ShortWOFF(fonts[int(kind[4]-'0')])
		if exists(p) || w == nil {
			return false
		}
		write(p, w, f.clock)
	case "pkg": // two fonts installed together (archive extraction, cp -p, a package manager): one shared time stamp
		a, b, _ := strings.Cut(arg, "+")
		pa, pb := filepath.Join(f.root, a), filepath.Join(f.root, b)
		if exists(pa) || exists(pb) {
			return false
		}
		write(pa, fonts[0], f.clock)
		write(pb, fonts[1], f.clock)
	case "rm":
		if !exists(p) {
			return false
		}
		os.Remove(p)
	case "touch":
		if !exists(p) {
			return false
		}
		f.stamp(p, f.clock)
	case "older":
		if !exists(p) {
			return false
		}
		f.stamp(p, mtime(p)-5)
	case "replaceB":
		if !exists(p) {
			return false
		}
		write(p, fonts[1], f.clock)
	case "replaceOlderB": // like cp -p of an older file: content changes, mtime goes backward
		if !exists(p) {
			return false
		}
		write(p, fonts[1], mtime(p)-5)
	case "garbage":
		if !exists(p) {
			return false
		}
		write(p, []byte("this is not a font any more"), f.clock)
	case "mv", "mvdir":
		from, to, _ := strings.Cut(arg, ">")
		if !exists(filepath.Join(f.root, from)) || exists(filepath.Join(f.root, to)) {
			return false
		}
		os.Rename(filepath.Join(f.root, from), filepath.Join(f.root, to))
	case "addtxt":
		if exists(p) {
			return false
		}
		write(p, []byte("readme"), f.clock)
	case "symlink", "symlinkdir":
		from, to, _ := strings.Cut(arg, ">")
		if exists(filepath.Join(f.root, from)) || !exists(filepath.Join(f.root, to)) {
			return false
		}
		os.MkdirAll(filepath.Dir(filepath.Join(f.root, from)), 0o755)
		os.Symlink(filepath.Join(f.root, to), filepath.Join(f.root, from))
	}
	return true
}

func (f *c16fs) listing() string {
	var out []string
	filepath.Walk(f.root, func(p string, info os.FileInfo, err error) error {
		if err != nil {
			return nil
		}
		rel, _ := filepath.Rel(f.root, p)
		extra := ""
		if info.Mode()&os.ModeSymlink != 0 {
			t, _ := os.Readlink(p)
			extra = "->" + strings.TrimPrefix(t, f.root)
		} else if !info.IsDir() {
			b, _ := os.ReadFile(p)
			extra = fmt.Sprintf("%x@%d", mc.HashBytes(b)&0xFFFF, info.ModTime().Unix())
		}
		out = append(out, rel+" "+extra)
		return nil
	})
	sort.Strings(out)
	return strings.Join(out, "\n")
}

// relImage: index image with the scratch root removed from paths (so that states merge across replays)
func c16RelImage(root string, idx fontscan.VerifIndex) string {
	return strings.ReplaceAll(c16Image(idx.Files()), root, "")
}

func c16Histories(r *mc.Reporter, scratch string, depth int, sh, nsh int) {
	root := filepath.Join(scratch, "histfs")
	type node struct{ ops []string }
	seen := map[string]bool{}
	frontier := []node{{}}
	states, transitions := 0, 0
	// replay builds the tree, refreshing the index after every step, and checks the law at every step
	replay := func(ops []string, judge bool) (key string, ok bool) {
		os.RemoveAll(root)
		fs := &c16fs{root: root, clock: 1000}
		os.MkdirAll(filepath.Join(root, "d", "sub"), 0o755)
		os.MkdirAll(filepath.Join(root, "e"), 0o755)
		dirs := []string{filepath.Join(root, "d"), filepath.Join(root, "e")}
		var idx fontscan.VerifIndex
		cs := &c16case{Part: "refresh-history", Ops: ops}
		step := func() bool {
			var inc, scr fontscan.VerifIndex
			var e1, e2 error
			if !r.Guard("C16", cs, func() {
				inc, e1 = fontscan.VerifScan(c16Logger, idx, dirs...)
				scr, e2 = fontscan.VerifScan(c16Logger, fontscan.VerifIndex{}, dirs...)
			}) {
				return false
			}
			if (e1 == nil) != (e2 == nil) {
				r.Violation("C16:refresh:error-mismatch", cs, fmt.Sprintf("incremental err=%v, from scratch err=%v", e1, e2))
				return false
			}
			if e1 != nil {
				idx = fontscan.VerifIndex{}
				return true
			}
			if judge {
				if a, b := c16RelImage(root, inc), c16RelImage(root, scr); a != b {
					r.Violation("C16:refresh:incremental-differs", cs, fmt.Sprintf("after %v the incremental refresh differs from a scan from scratch:\n%s\n--- scratch:\n%s", ops, mc.Trunc(a, 600), mc.Trunc(b, 600)))
				}
			}
			// persist and reload, as the library does between two runs of an application
			var buf bytes.Buffer
			inc.SerializeTo(&buf)
			back, err := fontscan.VerifDeserializeIndex(bytes.NewReader(buf.Bytes()))
			if err != nil {
				r.Violation("C16:refresh:persist", cs, err.Error())
				return false
			}
			idx = back
			return true
		}
		if !step() {
			return "", false
		}
		for _, op := range ops {
			if !fs.apply(op) {
				return "", false // operation not enabled in this state
			}
			if !step() {
				return "", false
			}
		}
		return fs.listing() + "\n##\n" + c16RelImage(root, idx), true
	}
	k := 0
	for d := 0; d <= depth; d++ {
		var next []node
		for _, nd := range frontier {
			if d == 2 {
				k++
				if k%nsh != sh {
					continue // shards share levels 0-1 and split the sub-trees below level 2
				}
			}
			if r.Expired() {
				r.Incomplete(fmt.Sprintf("deadline at depth %d", d))
				os.RemoveAll(root)
				return
			}
			r.Eval()
			key, ok := replay(nd.ops, true)
			if !ok {
				continue
			}
			transitions++
			if seen[key] {
				continue
			}
			seen[key] = true
			states++
			r.OutcomeStr(key, len(nd.ops) > 0)
			if len(nd.ops) == 3 && r.WantSample() {
				r.Sample(nd.ops)
			}
			if d < depth {
				for _, op := range c16OpNames {
					next = append(next, node{append(append([]string(nil), nd.ops...), op)})
				}
			}
		}
		frontier = next
	}
	r.Count("states", int64(states))
	r.Count("transitions", int64(transitions))
	os.RemoveAll(root)
}

// ---- driver ---------------------------------------------------------------------------------------

func c16Shards(tier string) []string {
	s := []string{"roundtrip:synthetic", "roundtrip:corpus", "refresh-crash"}
	for i := 0; i < 16; i++ {
		s = append(s, fmt.Sprintf("crash:one:%d", i), fmt.Sprintf("crash:three:%d", i))
	}
	for i := 0; i < 24; i++ {
		s = append(s, fmt.Sprintf("history:%d", i))
	}
	return s
}

func c16Run(tier, shard string, r *mc.Reporter) {
	scratch := os.Getenv("VERIF_WORKER_SCRATCH")
	if scratch == "" {
		scratch, _ = os.MkdirTemp(mc.Scratch(), "verif-C16-")
		defer os.RemoveAll(scratch)
	}
	scratch = filepath.Join(scratch, "w"+os.Getenv("VERIF_WORKER_IDX")+"-"+strings.ReplaceAll(shard, ":", "_"))
	os.MkdirAll(scratch, 0o755)
	defer os.RemoveAll(scratch)
	parts := strings.Split(shard, ":")
	switch parts[0] {
	case "roundtrip":
		if parts[1] == "synthetic" {
			syn := c16Synthetic()
			c16RoundTrip(r, "synthetic-all", syn)
			for i := range syn {
				c16RoundTrip(r, "synthetic-"+strconv.Itoa(i), syn[i:i+1])
			}
			c16RoundTrip(r, "empty", nil)
			var many []fontscan.VerifFile
			for i := 0; i < 1000; i++ {
				many = append(many, fontscan.VerifFile{Path: "/f" + strconv.Itoa(i), ModTime: int64(i), Footprints: syn[3].Footprints})
			}
			c16RoundTrip(r, "1000-files", many)
			return
		}
		files := corpus.Files()
		var all []fontscan.VerifFile
		for i := range files {
			if tier == "quick" && len(files[i].Data) > 100<<10 {
				continue
			}
			fps := c16Footprint(&files[i])
			vf := fontscan.VerifFile{Path: "/fonts/" + files[i].Name, ModTime: int64(i), Footprints: fps}
			all = append(all, vf)
			c16RoundTrip(r, files[i].Name, []fontscan.VerifFile{vf})
		}
		c16RoundTrip(r, "whole-corpus", all)
	case "crash":
		sh, _ := strconv.Atoi(parts[2])
		c16Crash(r, parts[1], c16Indexes()[parts[1]], sh, 16, tier)
	case "refresh-crash":
		c16RefreshAfterCrash(r, scratch)
	case "history":
		sh, _ := strconv.Atoi(parts[1])
		depth := 4
		if tier == "thorough" {
			depth = 5
		}
		c16Histories(r, scratch, depth, sh, 24)
	}
}

func c16Replay(raw json.RawMessage, r *mc.Reporter) {
	var c c16case
	if json.Unmarshal(raw, &c) != nil {
		return
	}
	scratch, _ := os.MkdirTemp(mc.Scratch(), "verif-C16-replay-")
	defer os.RemoveAll(scratch)
	switch c.Part {
	case "roundtrip":
		c16Run("quick", "roundtrip:synthetic", r)
		c16Run("quick", "roundtrip:corpus", r)
	case "crash":
		for i := 0; i < 16; i++ {
			c16Crash(r, c.Index, c16Indexes()[c.Index], i, 16, "thorough")
		}
	case "refresh-crash":
		c16RefreshAfterCrash(r, scratch)
	case "refresh-history":
		c16Histories(r, scratch, len(c.Ops), 0, 1)
	}
	_ = reflect.DeepEqual
}

func init() {
	Register(&mc.Check{
		ID: "C16", Level: "fault_enumeration",
		Rule: "(a) round trip of the index of every corpus face (alone and all together) and of synthetic footprints (empty sets, 4352-page rune set, 255 scripts, 65535-byte strings, extreme and non-finite floats compared by bits, extreme mod times, 1000 files, empty footprint lists); " +
			"(b) for a 1-file and a 3-file index: every prefix of the gzip stream, every byte x 255 values of the stream, every byte x 6 masks and every prefix of the uncompressed payload re-compressed: no panic, bounded allocation, a returned index is re-serialisable and total; a truncated file read as another index is a violation; " +
			"(c) the refresh sequence (read cache, incremental scan, write cache) on every crash state of the cache file must equal a scan from scratch and leave a readable cache; " +
			"(d) explicit-state search over file system histories (20 operations: add/remove/replace/touch/older mtime/garbage/rename file and directory/non-font file/symlink to file and directory/two fonts installed with one shared time stamp/a WOFF file with a truncated compressed table, on 2 roots with a nested directory) to the tier's depth with deduplication on (tree listing, persisted index): after every step incremental scan == scan from scratch. Non-trivial = fault not rejected / history of >= 1 operation",
		Assumptions: []string{"refreshSystemFontsIndex is emulated on explicit scratch directories with the same three calls (DefaultFontDirectories reads the host configuration)", "modification times are set by the harness (logical clock); a replacement with the very same mtime is outside the property",
			"a corrupted (not truncated) cache that still parses to another index is counted, not judged: the statement only requires an error or a well-formed index"},
		Shards: c16Shards, Run: c16Run, Replay: c16Replay,
		Bounds: map[string]string{"quick": "corpus files <= 100 KiB in (a); (b) every 7th position of streams > 600 bytes; (d) depth 4", "thorough": "all corpus files; all positions; (d) depth 5"},
	})
}
