package checks

// C15 — Style matching follows CSS Fonts §5.2.

import (
	"encoding/json"
	"fmt"
	"sort"
	"strconv"

	"github.com/go-text/typesetting/font"
	"github.com/go-text/typesetting/fontscan"

	"verif/mc"
)

type c15case struct {
	Cands []font.Aspect `json:"cands"`
	Query font.Aspect   `json:"query"`
}

var c15Stretches = []font.Stretch{font.StretchUltraCondensed, font.StretchExtraCondensed, font.StretchCondensed, font.StretchSemiCondensed,
	font.StretchNormal, font.StretchSemiExpanded, font.StretchExpanded, font.StretchExtraExpanded, font.StretchUltraExpanded}
var c15Styles = []font.Style{font.StyleNormal, font.StyleItalic}

func c15Weights() []font.Weight {
	var w []font.Weight
	for v := 100; v <= 950; v += 50 {
		w = append(w, font.Weight(v))
	}
	w = append(w, 399, 401, 499, 501)
	sort.Slice(w, func(i, j int) bool { return w[i] < w[j] })
	return w
}

func c15Grid(stretches []font.Stretch, weights []font.Weight) []font.Aspect {
	var g []font.Aspect
	for _, st := range stretches {
		for _, sy := range c15Styles {
			for _, w := range weights {
				g = append(g, font.Aspect{Style: sy, Weight: w, Stretch: st})
			}
		}
	}
	return g
}

func c15Queries(stretches []font.Stretch, weights []font.Weight) []font.Aspect {
	var q []font.Aspect
	for _, st := range append([]font.Stretch{0}, stretches...) {
		for _, sy := range append([]font.Style{0}, c15Styles...) {
			for _, w := range append([]font.Weight{0}, weights...) {
				q = append(q, font.Aspect{Style: sy, Weight: w, Stretch: st})
			}
		}
	}
	return q
}

// css52 is a direct transcription of CSS Fonts Level 3 §5.2 steps 4.1-4.3 (stretch, style, weight)
// on a non-empty candidate list; it returns the chosen (stretch, style, weight).
func css52(cands []font.Aspect, q font.Aspect) font.Aspect {
	if q.Stretch == 0 {
		q.Stretch = font.StretchNormal
	}
	if q.Style == 0 {
		q.Style = font.StyleNormal
	}
	if q.Weight == 0 {
		q.Weight = font.WeightNormal
	}
	// --- font-stretch
	var stretch font.Stretch
	{
		exact := false
		var narrower, wider []font.Stretch
		for _, c := range cands {
			switch {
			case c.Stretch == q.Stretch:
				exact = true
			case c.Stretch < q.Stretch:
				narrower = append(narrower, c.Stretch)
			default:
				wider = append(wider, c.Stretch)
			}
		}
		sort.Slice(narrower, func(i, j int) bool { return narrower[i] > narrower[j] }) // closest first
		sort.Slice(wider, func(i, j int) bool { return wider[i] < wider[j] })
		switch {
		case exact:
			stretch = q.Stretch
		case q.Stretch <= font.StretchNormal: // "narrower width values are checked first, then wider values"
			if len(narrower) > 0 {
				stretch = narrower[0]
			} else {
				stretch = wider[0]
			}
		default: // "wider values are checked first, followed by narrower values"
			if len(wider) > 0 {
				stretch = wider[0]
			} else {
				stretch = narrower[0]
			}
		}
	}
	var s1 []font.Aspect
	for _, c := range cands {
		if c.Stretch == stretch {
			s1 = append(s1, c)
		}
	}
	// --- font-style (oblique is the same value as italic in this library)
	has := func(st font.Style) bool {
		for _, c := range s1 {
			if c.Style == st {
				return true
			}
		}
		return false
	}
	var style font.Style
	if q.Style == font.StyleItalic { // italic, then oblique, then normal
		if has(font.StyleItalic) {
			style = font.StyleItalic
		} else {
			style = font.StyleNormal
		}
	} else { // normal, then oblique, then italic
		if has(font.StyleNormal) {
			style = font.StyleNormal
		} else {
			style = font.StyleItalic
		}
	}
	var ws []font.Weight
	for _, c := range s1 {
		if c.Style == style {
			ws = append(ws, c.Weight)
		}
	}
	sort.Slice(ws, func(i, j int) bool { return ws[i] < ws[j] })
	// --- font-weight
	w := q.Weight
	pick := func(order []font.Weight) (font.Weight, bool) {
		if len(order) > 0 {
			return order[0], true
		}
		return 0, false
	}
	var below, above []font.Weight // below: descending; above: ascending
	exact := false
	for _, x := range ws {
		switch {
		case x == w:
			exact = true
		case x < w:
			below = append([]font.Weight{x}, below...)
		default:
			above = append(above, x)
		}
	}
	var weight font.Weight
	switch {
	case exact:
		weight = w
	case w >= 400 && w <= 500:
		// "weights greater than or equal to the target weight are checked in ascending order until 500 is hit and checked,
		// followed by weights less than the target weight in descending order, followed by weights greater than 500"
		var upTo500, over500 []font.Weight
		for _, x := range above {
			if x <= 500 {
				upTo500 = append(upTo500, x)
			} else {
				over500 = append(over500, x)
			}
		}
		if v, ok := pick(upTo500); ok {
			weight = v
		} else if v, ok := pick(below); ok {
			weight = v
		} else {
			weight = over500[0]
		}
	case w < 400: // descending below, then ascending above
		if v, ok := pick(below); ok {
			weight = v
		} else {
			weight = above[0]
		}
	default: // w > 500: ascending above, then descending below
		if v, ok := pick(above); ok {
			weight = v
		} else {
			weight = below[0]
		}
	}
	return font.Aspect{Style: style, Weight: weight, Stretch: stretch}
}

type c15env struct {
	r *mc.Reporter
	m fontscan.VerifMatcher
}

func (e *c15env) one(cands []font.Aspect, q font.Aspect) {
	r := e.r
	r.Eval()
	var got []int
	cs := func() c15case { return c15case{Cands: append([]font.Aspect(nil), cands...), Query: q} }
	ok := true
	func() {
		defer func() {
			if p := recover(); p != nil {
				ok = false
				r.Violation("C15:panic", cs(), fmt.Sprint("panic: ", p))
			}
		}()
		got = e.m.Match(cands, q)
	}()
	if !ok {
		return
	}
	want := css52(cands, q)
	if len(got) == 0 {
		r.Violation("C15:empty-result", cs(), "non-empty candidate set narrowed to nothing")
		return
	}
	n := 0
	for i, c := range cands {
		if c == want {
			n++
			_ = i
		}
	}
	bad := len(got) != n
	seen := map[int]bool{}
	for _, gi := range got {
		if gi < 0 || gi >= len(cands) || seen[gi] || cands[gi] != want {
			bad = true
		}
		if gi >= 0 && gi < len(cands) {
			seen[gi] = true
		}
	}
	if bad {
		var ga []font.Aspect
		for _, gi := range got {
			if gi >= 0 && gi < len(cands) {
				ga = append(ga, cands[gi])
			}
		}
		step := "weight"
		if len(ga) > 0 && ga[0].Stretch != want.Stretch {
			step = "stretch"
		} else if len(ga) > 0 && ga[0].Style != want.Style {
			step = "style"
		}
		r.Violation("C15:wrong-choice:"+step, cs(), fmt.Sprintf("query %+v over %+v: library keeps %v %+v, CSS 5.2 selects %+v", q, cands, got, ga, want))
	}
	// outcome: which branch of each step decided
	sig := fmt.Sprintf("%v|%v|%v|%v%v%v", want.Stretch == q.Stretch || q.Stretch == 0 && want.Stretch == 1, want.Style == q.Style || q.Style == 0 && want.Style == 1,
		want.Weight == q.Weight || q.Weight == 0 && want.Weight == 400, want.Stretch < q.Stretch, want.Weight < q.Weight, q.Weight >= 400 && q.Weight <= 500)
	r.OutcomeStr(sig, len(cands) > 1)
	if len(cands) == 3 && r.WantSample() {
		r.Sample(cs())
	}
}

const c15NShards = 64

func c15Shards(tier string) []string {
	var s []string
	for i := 0; i < c15NShards; i++ {
		s = append(s, strconv.Itoa(i))
	}
	return s
}

func c15Run(tier, shard string, r *mc.Reporter) {
	sh, _ := strconv.Atoi(shard)
	e := &c15env{r: r}
	full := c15Grid(c15Stretches, c15Weights())
	queries := c15Queries(c15Stretches, c15Weights())
	buf := make([]font.Aspect, 0, 4)
	idx := 0
	// size 1 and 2: complete over the full grid (multisets: i <= j)
	for i := range full {
		idx++
		if idx%c15NShards != sh {
			continue
		}
		for _, q := range queries {
			e.one(append(buf[:0], full[i]), q)
		}
		for j := i; j < len(full); j++ {
			for _, q := range queries {
				e.one(append(buf[:0], full[i], full[j]), q)
				if j != i { // order of candidates must not matter
					e.one(append(buf[:0], full[j], full[i]), q)
				}
			}
		}
		if r.Expired() {
			r.Incomplete("deadline in size<=2 enumeration")
			return
		}
	}
	// size 3: complete over a sub-grid
	var sub []font.Aspect
	var subQ []font.Aspect
	if tier == "thorough" {
		ws := []font.Weight{100, 300, 350, 400, 450, 500, 550, 600, 700, 900, 950}
		sub = c15Grid(c15Stretches, ws)
		subQ = c15Queries(c15Stretches, ws)
	} else {
		st := []font.Stretch{font.StretchCondensed, font.StretchNormal, font.StretchExpanded}
		ws := []font.Weight{300, 400, 450, 500, 600, 700}
		sub = c15Grid(st, ws)
		subQ = c15Queries(st, ws)
	}
	for i := range sub {
		idx++
		if idx%c15NShards != sh {
			continue
		}
		for j := i; j < len(sub); j++ {
			for k := j; k < len(sub); k++ {
				for _, q := range subQ {
					e.one(append(buf[:0], sub[i], sub[j], sub[k]), q)
					e.one(append(buf[:0], sub[k], sub[i], sub[j]), q)
				}
			}
			if r.Expired() {
				r.Incomplete("deadline in size 3 enumeration")
				return
			}
		}
	}
}

func c15Replay(raw json.RawMessage, r *mc.Reporter) {
	var c c15case
	if json.Unmarshal(raw, &c) != nil {
		return
	}
	e := &c15env{r: r}
	e.one(c.Cands, c.Query)
}

func init() {
	Register(&mc.Check{
		ID: "C15", Level: "exploration",
		Rule: "grid = 9 stretches x 2 styles x 22 weights (100..950 step 50, 399, 401, 499, 501) = 396 aspects; every candidate multiset of size 1 and 2 over the grid (both orders) x every query of the grid plus unset fields (10 x 3 x 23 = 690); " +
			"every multiset of size 3 over a sub-grid (quick 3 stretches x 2 styles x 6 weights, thorough 9 x 2 x 11) x the sub-grid queries, two candidate orders; result of fontSet.retainsBestMatches (hook) vs a direct transcription of CSS Fonts 3 section 5.2. " +
			"Non-trivial = more than one candidate; distinct = which branch of each of the three steps decided",
		Assumptions: []string{"oblique and italic are the same value in this library", "the public AddFace/SetQuery/ResolveFace path to this function is covered by C14"},
		Shards:      c15Shards, Run: c15Run, Replay: c15Replay,
		Bounds: map[string]string{"quick": "sizes 1-2 complete on the 396-aspect grid; size 3 complete on a 36-aspect sub-grid", "thorough": "sizes 1-2 complete; size 3 complete on a 198-aspect sub-grid"},
	})
}
