package checks

// Synthetic shaped-run generator and paragraph model shared by C02, C03, C04 (and C13's wrapper search).

import (
	"fmt"
	"sort"

	"github.com/go-text/typesetting/di"
	"github.com/go-text/typesetting/font"
	"github.com/go-text/typesetting/segmenter"
	"github.com/go-text/typesetting/shaping"
	"golang.org/x/image/math/fixed"
)

// one cluster of a run: Runes runes shaped into Glyphs glyphs
type wCluster struct {
	R int `json:"r"`
	G int `json:"g"`
}

type wRun struct {
	Dir      int        `json:"dir"` // 0 LTR 1 RTL 2 TTB 3 BTT
	Clusters []wCluster `json:"cl"`
}

type wCase struct {
	Text      []rune `json:"text"`
	Runs      []wRun `json:"runs"`
	Widths    []int  `json:"widths"` // one value: constant; several: per line (last repeats), through WrapNextLine
	Policy    int    `json:"policy"`
	PDir      int    `json:"pdir"`
	Trunc     int    `json:"trunc"`     // TruncateAfterLines
	Truncator int    `json:"truncator"` // 0 empty, 1 advance 7.375, 2 advance 1000, 3 advance 7.375 shaped against the paragraph direction
	Continues bool   `json:"continues"`
	NoTrim    bool   `json:"notrim"`
	WordSp    int    `json:"wordsp"`   // 26.6 units
	LetterSp  int    `json:"lettersp"` // 26.6 units
	Driver    int    `json:"driver"`   // 0 WrapParagraph 1 Prepare+WrapNextLine
	Iter      int    `json:"iter"`     // 0 library slice iterator 1 harness iterator 2 one library iterator object reused through Reset
}

func (c *wCase) String() string {
	return fmt.Sprintf("%q runs=%v widths=%v pol=%d pdir=%d trunc=%d/%d/%v notrim=%v sp=%d/%d drv=%d it=%d",
		string(c.Text), c.Runs, c.Widths, c.Policy, c.PDir, c.Trunc, c.Truncator, c.Continues, c.NoTrim, c.WordSp, c.LetterSp, c.Driver, c.Iter)
}

var wDirs = []di.Direction{di.DirectionLTR, di.DirectionRTL, di.DirectionTTB, di.DirectionBTT}

func isWhitespaceRune(r rune) bool {
	switch r {
	case ' ', '\n', 0x00A0, 0x200B, 0x2029, '\r', 0x0085, 0x000B, 0x000C, 0x2028:
		return true
	}
	return false
}

// advance (26.6) of the first glyph of a cluster holding these runes
func clusterAdvance(rs []rune) (adv, width fixed.Int26_6) {
	if len(rs) == 1 {
		switch rs[0] {
		case ' ':
			return 5<<6 + 32, 0 // 5.5 px, whitespace
		case 0x00A0:
			return 5 << 6, 0
		case '\n', 0x200B, 0x2029, '\r', 0x0085, 0x000B, 0x000C, 0x2028:
			return 0, 0
		case 0x0301:
			return 0, 4 << 6 // zero advance mark with ink
		case '-':
			return 4 << 6, 3 << 6
		}
	}
	a := fixed.Int26_6(0)
	for _, r := range rs {
		switch {
		case isWhitespaceRune(r):
			a += 5 << 6
		case r == 0x0301:
		case r == 'i':
			a += 4<<6 + 32 // narrow and wide letters of the long, proportional paragraphs
		case r == 'W':
			a += 14<<6 + 48
		default:
			a += 10<<6 + 16 // 10.25 px
		}
	}
	if a == 0 {
		return 0, 1 << 6
	}
	return a, a - 64
}

const truncMaskBase = 0xFFFF0000

// model of the pristine input
type mGlyph struct {
	id       uint32
	cluster  int // index into mPara.clusters
	adv      fixed.Int26_6
	width    fixed.Int26_6
	startSp  fixed.Int26_6
	endSp    fixed.Int26_6
	arrayIdx int // index inside its run's glyph array
	runIdx   int
	white    bool
}

type mCluster struct {
	run        int
	start, end int   // rune range
	glyphs     []int // indices into mPara.glyphs, in array order
}

type mPara struct {
	c         *wCase
	n         int
	runs      []shaping.Output // pristine (after spacing) — deep copies are handed to the wrapper
	runStart  []int
	runEnd    []int
	clusters  []mCluster // logical order
	glyphs    []mGlyph
	cs        []bool // cluster starts (index 0..n), cs[n]=true
	lb        []bool // UAX14 opportunity after rune i-1, i.e. boundary index i in 1..n
	mb        []bool // mandatory (without n)
	gb        []bool // grapheme boundary
	vertical  bool
	truncator shaping.Output
}

var dummyFaces = []*font.Face{{}, {}, {}, {}, {}, {}}

// build constructs the pristine runs of a case (nil if the case is not well-formed)
func buildPara(c *wCase, seg *segmenter.Segmenter) *mPara {
	p := &mPara{c: c, n: len(c.Text)}
	pos := 0
	id := uint32(1)
	for ri, run := range c.Runs {
		dir := wDirs[run.Dir]
		if dir.IsVertical() {
			p.vertical = true
		}
		start := pos
		var logical [][]int // per cluster, glyph model indices in logical order
		firstCluster := len(p.clusters)
		for _, cl := range run.Clusters {
			rs := c.Text[pos : pos+cl.R]
			adv, width := clusterAdvance(rs)
			mc := mCluster{run: ri, start: pos, end: pos + cl.R}
			var gl []int
			for g := 0; g < cl.G; g++ {
				mg := mGlyph{id: id, cluster: len(p.clusters), runIdx: ri}
				id++
				if g == 0 {
					mg.adv, mg.width = adv, width
					mg.white = width == 0
				} else {
					mg.adv, mg.width = 3<<6, 2<<6
				}
				p.glyphs = append(p.glyphs, mg)
				gl = append(gl, len(p.glyphs)-1)
			}
			logical = append(logical, gl)
			p.clusters = append(p.clusters, mc)
			pos += cl.R
		}
		// array order: LTR = logical; RTL = clusters reversed and glyphs inside reversed
		var order []int
		if dir.Progression() == di.FromTopLeft {
			for _, gl := range logical {
				order = append(order, gl...)
			}
		} else {
			for i := len(logical) - 1; i >= 0; i-- {
				gl := logical[i]
				for j := len(gl) - 1; j >= 0; j-- {
					order = append(order, gl[j])
				}
			}
		}
		out := shaping.Output{Direction: dir, Runes: shaping.Range{Offset: start, Count: pos - start}, Face: dummyFaces[ri%len(dummyFaces)], Size: 16 << 6}
		out.Glyphs = make([]shaping.Glyph, len(order))
		for ai, gi := range order {
			mg := &p.glyphs[gi]
			mg.arrayIdx = ai
			cl := &p.clusters[mg.cluster]
			g := shaping.Glyph{ClusterIndex: cl.start, RuneCount: cl.end - cl.start, GlyphCount: len(logical[mg.cluster-firstCluster]),
				GlyphID: font.GID(mg.id), Mask: mg.id}
			if dir.IsVertical() {
				g.YAdvance = -mg.adv
				g.Height = -mg.width
				g.Width = 8 << 6
			} else {
				g.XAdvance = mg.adv
				g.Width = mg.width
				g.Height = -8 << 6
			}
			out.Glyphs[ai] = g
		}
		// clusters' glyph lists in array order
		for ci := firstCluster; ci < len(p.clusters); ci++ {
			p.clusters[ci].glyphs = nil
		}
		for _, gi := range order {
			ci := p.glyphs[gi].cluster
			p.clusters[ci].glyphs = append(p.clusters[ci].glyphs, gi)
		}
		out.RecomputeAdvance()
		p.runs = append(p.runs, out)
		p.runStart = append(p.runStart, start)
		p.runEnd = append(p.runEnd, pos)
	}
	if pos != p.n {
		return nil
	}
	// spacing through the library (it is part of the property's configuration space)
	if c.WordSp != 0 || c.LetterSp != 0 {
		shaping.AddSpacing(p.runs, c.Text, fixed.Int26_6(c.WordSp), fixed.Int26_6(c.LetterSp))
		half := fixed.Int26_6(c.LetterSp) / 2
		for ri := range p.runs {
			gs := p.runs[ri].Glyphs
			for ai := range gs {
				// model: read back the advances; letter spacing halves per the documentation of AddLetterSpacing
				gi := p.glyphAt(ri, ai)
				mg := &p.glyphs[gi]
				if p.runs[ri].Direction.IsVertical() {
					mg.adv = -gs[ai].YAdvance
				} else {
					mg.adv = gs[ai].XAdvance
				}
				if c.LetterSp != 0 {
					cl := &p.clusters[mg.cluster]
					firstOfCluster := cl.glyphs[0] == gi
					lastOfCluster := cl.glyphs[len(cl.glyphs)-1] == gi
					firstInArray := ai == 0
					lastClusterInArray := cl.glyphs[len(cl.glyphs)-1] == p.glyphAt(ri, len(gs)-1)
					if firstOfCluster && !(firstInArray && ri == 0) {
						mg.startSp = half
					}
					if lastOfCluster && !(lastClusterInArray && ri == len(p.runs)-1) {
						mg.endSp = half
					}
				}
			}
		}
	}
	// boundaries
	p.cs = make([]bool, p.n+1)
	for _, cl := range p.clusters {
		p.cs[cl.start] = true
	}
	p.cs[p.n] = true
	p.lb = make([]bool, p.n+1)
	p.mb = make([]bool, p.n+1)
	p.gb = make([]bool, p.n+1)
	seg.Init(c.Text)
	li := seg.LineIterator()
	for li.Next() {
		l := li.Line()
		e := l.Offset + len(l.Text)
		p.lb[e] = true
		if l.IsMandatoryBreak && e != p.n {
			p.mb[e] = true
		}
	}
	gi := seg.GraphemeIterator()
	for gi.Next() {
		g := gi.Grapheme()
		p.gb[g.Offset+len(g.Text)] = true
	}
	// truncator
	switch c.Truncator {
	case 1, 2, 3:
		adv := fixed.Int26_6(7<<6 + 24) // 7.375 px: fractional, so that rounding of the reduced width is observable
		if c.Truncator == 2 {
			adv = 1000 << 6
		}
		g := shaping.Glyph{GlyphID: 9999, Mask: truncMaskBase, GlyphCount: 1, RuneCount: 1, Width: adv - 64}
		dir := wDirs[c.PDir]
		if c.Truncator == 3 {
			dir = wDirs[c.PDir^1] // a truncator shaped against the paragraph direction (e.g. an LTR ellipsis in RTL text)
		}
		if p.vertical {
			dir = di.DirectionTTB
			g.YAdvance = -adv
		} else {
			g.XAdvance = adv
		}
		p.truncator = shaping.Output{Glyphs: []shaping.Glyph{g}, Direction: dir, Runes: shaping.Range{Count: 1}, Size: 16 << 6}
		p.truncator.RecomputeAdvance()
	}
	return p
}

func (p *mPara) glyphAt(run, arrayIdx int) int {
	// glyph ids are allocated per run consecutively; find by scanning clusters of the run
	for gi := range p.glyphs {
		if p.glyphs[gi].runIdx == run && p.glyphs[gi].arrayIdx == arrayIdx {
			return gi
		}
	}
	return -1
}

func (p *mPara) copyRuns() []shaping.Output {
	out := make([]shaping.Output, len(p.runs))
	for i, r := range p.runs {
		out[i] = r
		out[i].Glyphs = append([]shaping.Glyph(nil), r.Glyphs...)
	}
	return out
}

func (p *mPara) config() shaping.WrapConfig {
	c := p.c
	pd := wDirs[c.PDir]
	cfg := shaping.WrapConfig{Direction: pd, TruncateAfterLines: c.Trunc, TextContinues: c.Continues,
		BreakPolicy: shaping.LineBreakPolicy(c.Policy), DisableTrailingWhitespaceTrim: c.NoTrim}
	if c.Truncator != 0 {
		t := p.truncator
		t.Glyphs = append([]shaping.Glyph(nil), t.Glyphs...)
		cfg.Truncator = t
	}
	return cfg
}

func (p *mPara) absAdv(g *shaping.Glyph, vertical bool) fixed.Int26_6 {
	if vertical {
		return -g.YAdvance
	}
	return g.XAdvance
}

// permitted(policy)[i] for boundary i
func (p *mPara) permitted(policy int, i int) bool {
	if !p.cs[i] {
		return false
	}
	if p.lb[i] {
		return true
	}
	return policy != int(shaping.Never) && p.gb[i]
}

// ---------------------------------------------------------------------------
// an independent RunIterator (does not share code or layout with the library's)

type listIter struct {
	head  *listNode
	cur   *listNode
	saved *listNode
}

type listNode struct {
	idx  int
	run  shaping.Output
	next *listNode
}

func newListIter(runs []shaping.Output) *listIter {
	var head, tail *listNode
	for i, r := range runs {
		n := &listNode{idx: i, run: r}
		if head == nil {
			head = n
		} else {
			tail.next = n
		}
		tail = n
	}
	return &listIter{head: head, cur: head, saved: head}
}

func (l *listIter) Next() (int, shaping.Output, bool) {
	if l.cur == nil {
		return -1, shaping.Output{}, false
	}
	n := l.cur
	l.cur = n.next
	return n.idx, n.run, true
}

func (l *listIter) Peek() (int, shaping.Output, bool) {
	if l.cur == nil {
		return -1, shaping.Output{}, false
	}
	return l.cur.idx, l.cur.run, true
}
func (l *listIter) Save()    { l.saved = l.cur }
func (l *listIter) Restore() { l.cur = l.saved }

// ---------------------------------------------------------------------------
// enumeration helpers

// compositions of n into parts (each part >= 1), at most maxPart per part
func compositions(n, maxPart int) [][]int {
	if n == 0 {
		return [][]int{{}}
	}
	var out [][]int
	for first := 1; first <= n && first <= maxPart; first++ {
		for _, rest := range compositions(n-first, maxPart) {
			out = append(out, append([]int{first}, rest...))
		}
	}
	return out
}

// splits of n runes into at most maxRuns consecutive non-empty runs
func runSplits(n, maxRuns int) [][]int {
	var out [][]int
	for _, c := range compositions(n, n) {
		if len(c) <= maxRuns {
			out = append(out, c)
		}
	}
	sort.SliceStable(out, func(i, j int) bool { return len(out[i]) < len(out[j]) })
	return out
}

// criticalWidths returns every width at which the behaviour can change: ceil of every
// interval sum of cluster advances, with and without the advance/letter spacing of the interval's
// boundary glyphs, shifted by the truncator advance when truncating; plus 0.
func (p *mPara) criticalWidths(maxCount int) []int {
	set := map[int]bool{0: true}
	nc := len(p.clusters)
	advOf := func(ci int) fixed.Int26_6 {
		var a fixed.Int26_6
		for _, gi := range p.clusters[ci].glyphs {
			a += p.glyphs[gi].adv
		}
		return a
	}
	tr := 0
	if p.c.Trunc > 0 {
		tr = p.truncator.Advance.Ceil()
		if tr < 0 {
			tr = -tr
		}
	}
	add := func(v fixed.Int26_6) {
		w := v.Ceil()
		if w < 0 {
			return
		}
		set[w] = true
		if tr > 0 && tr < 500 {
			set[w+tr] = true
		}
	}
	for i := 0; i < nc; i++ {
		var s fixed.Int26_6
		for j := i; j < nc; j++ {
			s += advOf(j)
			add(s)
			// discounts: any single glyph of the end clusters, or their letter spacing
			for _, ci := range []int{i, j} {
				for _, gi := range p.clusters[ci].glyphs {
					g := &p.glyphs[gi]
					add(s - g.adv)
					if g.endSp != 0 {
						add(s - g.endSp)
					}
					if g.startSp != 0 {
						add(s - g.startSp)
						add(s - g.startSp - g.endSp)
					}
				}
			}
		}
	}
	var ws []int
	for w := range set {
		ws = append(ws, w)
	}
	sort.Ints(ws)
	if maxCount > 0 && len(ws) > maxCount {
		// keep the smallest ones and the largest (a complete set for short paragraphs; reported otherwise)
		ws = append(ws[:maxCount-1], ws[len(ws)-1])
	}
	// "all maxWidth values from 0 upward": two widths beyond the range of 26.6 fixed point (2^25 px, and 2^26 px plus a
	// small critical width, which is that small width again if the limit is ever converted to fixed.Int26_6)
	ws = append(ws, 1<<25, 1<<26+ws[len(ws)/2])
	return ws
}
