package checks

// C12 — Shaped output geometry is self-consistent (rides on the shaping enumeration of C01).

import (
	"fmt"
	"math"

	"github.com/go-text/typesetting/di"
	"github.com/go-text/typesetting/font"
	"github.com/go-text/typesetting/font/opentype/tables"
	"github.com/go-text/typesetting/shaping"
	"golang.org/x/image/math/fixed"

	"verif/mc"
)

func tablesGID(g font.GID) tables.GlyphID { return tables.GlyphID(g) }

// glyphEq compares the exported fields of two glyphs
func glyphEq(a, b shaping.Glyph) bool {
	return a.Width == b.Width && a.Height == b.Height && a.XBearing == b.XBearing && a.YBearing == b.YBearing &&
		a.XAdvance == b.XAdvance && a.YAdvance == b.YAdvance && a.XOffset == b.XOffset && a.YOffset == b.YOffset &&
		a.ClusterIndex == b.ClusterIndex && a.RuneCount == b.RuneCount && a.GlyphCount == b.GlyphCount && a.GlyphID == b.GlyphID && a.Mask == b.Mask
}

func copyOutput(o shaping.Output) shaping.Output {
	c := o
	c.Glyphs = append([]shaping.Glyph(nil), o.Glyphs...)
	return c
}

// geometry identities on one Output
func (e *shEnv) geometry(c *shCase, o *shaping.Output, what string) {
	r := e.r
	vertical := o.Direction.IsVertical()
	var sum fixed.Int26_6
	for i, g := range o.Glyphs {
		if vertical {
			sum += g.YAdvance
			if g.XAdvance != 0 {
				r.Violation("C12:cross-axis-advance"+what, c, fmt.Sprintf("glyph %d of a vertical run has XAdvance %v", i, g.XAdvance))
				break
			}
		} else {
			sum += g.XAdvance
			if g.YAdvance != 0 {
				r.Violation("C12:cross-axis-advance"+what, c, fmt.Sprintf("glyph %d of a horizontal run has YAdvance %v", i, g.YAdvance))
				break
			}
		}
	}
	if sum != o.Advance {
		r.Violation("C12:advance-sum"+what, c, fmt.Sprintf("Advance=%v, glyph advances sum to %v", o.Advance, sum))
	}
	gb := o.GlyphBounds
	if gb.Ascent < 0 || gb.Descent > 0 || gb.Gap != 0 {
		r.Violation("C12:glyph-bounds-baseline"+what, c, fmt.Sprintf("GlyphBounds %+v does not enclose the baseline", gb))
	}
	for i, g := range o.Glyphs {
		var lo, hi fixed.Int26_6
		if vertical {
			lo = g.XOffset + g.XBearing
			hi = lo + g.Width
		} else {
			hi = g.YBearing + g.YOffset
			lo = hi + g.Height
		}
		if lo > hi {
			lo, hi = hi, lo
		}
		if gb.Ascent < hi || gb.Descent > lo {
			r.Violation("C12:glyph-bounds-ink"+what, c, fmt.Sprintf("GlyphBounds %+v does not enclose the ink box [%v,%v] of glyph %d", gb, lo, hi, i))
			break
		}
	}
}

func (e *shEnv) lawsC12(c *shCase, in shaping.Input, out *shaping.Output) {
	r := e.r
	n := len(c.Text)
	if !(0 <= c.Start && c.Start <= c.End && c.End <= n) {
		return
	}
	e.geometry(c, out, "")
	// line bounds: the font's extents under the scale of the advances (size rounded up to a pixel, in 26.6)
	if !out.Direction.IsVertical() && c.Size > 0 {
		if ext, ok := e.face.FontHExtents(); ok {
			scale := float64(fixed.Int26_6(c.Size).Ceil()) * 64 / float64(e.face.Upem())
			want := shaping.Bounds{Ascent: fixed.Int26_6(math.Round(float64(ext.Ascender) * scale)), Descent: fixed.Int26_6(math.Round(float64(ext.Descender) * scale)), Gap: fixed.Int26_6(math.Round(float64(ext.LineGap) * scale))}
			d := func(a, b fixed.Int26_6) bool { x := a - b; return x < -1 || x > 1 }
			if d(out.LineBounds.Ascent, want.Ascent) || d(out.LineBounds.Descent, want.Descent) || d(out.LineBounds.Gap, want.Gap) {
				r.Violation("C12:line-bounds", c, fmt.Sprintf("LineBounds %+v, font extents %+v scaled by ceil(size)/upem give %+v", out.LineBounds, ext, want))
			}
		}
	}
	// sideways = rotation of the horizontal shaping by 90 degrees clockwise about the dot
	if out.Direction.IsSideways() {
		hin := in
		hin.Direction = in.Direction.SwitchAxis()
		hin.Direction = di.Direction(hin.Direction.Harfbuzz()) // horizontal direction with the same progression, no orientation bits
		if in.Direction.Progression() == di.TowardTopLeft {
			hin.Direction = di.DirectionRTL
		} else {
			hin.Direction = di.DirectionLTR
		}
		var h shaping.Output
		if r.Guard("C12", c, func() { h = e.shaper.Shape(hin) }) {
			if len(h.Glyphs) != len(out.Glyphs) {
				r.Violation("C12:sideways-glyph-count", c, fmt.Sprintf("sideways run has %d glyphs, horizontal shaping %d", len(out.Glyphs), len(h.Glyphs)))
			} else {
				for i := range h.Glyphs {
					a, b := h.Glyphs[i], out.Glyphs[i]
					ok := a.GlyphID == b.GlyphID && a.ClusterIndex == b.ClusterIndex &&
						b.XAdvance == 0 && b.YAdvance == -a.XAdvance &&
						b.Width == -a.Height && b.Height == -a.Width &&
						b.XOffset+b.XBearing == a.YOffset+a.YBearing+a.Height &&
						b.YOffset+b.YBearing == -(a.XOffset+a.XBearing)
					if !ok {
						r.Violation("C12:sideways-rotation", c, fmt.Sprintf("glyph %d: horizontal %+v, sideways %+v is not its clockwise rotation about the dot", i, a, b))
						break
					}
				}
				if out.Advance != -h.Advance {
					r.Violation("C12:sideways-advance", c, fmt.Sprintf("sideways Advance %v, horizontal %v", out.Advance, h.Advance))
				}
			}
		}
		return
	}
	if c.Size != 16<<6 {
		return
	}
	// spacing laws
	text := c.Text
	isSep := func(ru rune) bool {
		switch ru {
		case 0x0020, 0x00A0, 0x1361, 0x10100, 0x10101, 0x1039F, 0x1091F:
			return true
		}
		return false
	}
	vertical := out.Direction.IsVertical()
	adv := func(g *shaping.Glyph) *fixed.Int26_6 {
		if vertical {
			return &g.YAdvance
		}
		return &g.XAdvance
	}
	off := func(g *shaping.Glyph) *fixed.Int26_6 {
		if vertical {
			return &g.YOffset
		}
		return &g.XOffset
	}
	same := func(a, b shaping.Glyph) bool { // every exported field but the main-axis advance and offset
		*adv(&a), *adv(&b), *off(&a), *off(&b) = 0, 0, 0, 0
		return glyphEq(a, b)
	}
	for _, w := range []fixed.Int26_6{-3 << 6, 5<<6 + 1} {
		o := copyOutput(*out)
		cc := *c
		cc.WordSp = int(w)
		if !r.Guard("C12", &cc, func() { o.AddWordSpacing(text, w) }) {
			continue
		}
		r.Eval()
		for i := range o.Glyphs {
			g0, g1 := out.Glyphs[i], o.Glyphs[i]
			want := fixed.Int26_6(0)
			if g0.RuneCount == 1 && g0.GlyphCount == 1 && g0.ClusterIndex >= 0 && g0.ClusterIndex < len(text) && isSep(text[g0.ClusterIndex]) {
				want = w
			}
			if *adv(&g1)-*adv(&g0) != want || !same(g0, g1) {
				r.Violation("C12:word-spacing", &cc, fmt.Sprintf("glyph %d (cluster %d): advance changed by %v, expected %v", i, g0.ClusterIndex, *adv(&g1)-*adv(&g0), want))
				break
			}
		}
		e.geometryAdvanceOnly(&cc, &o, ":after-word-spacing")
	}
	for _, l := range []fixed.Int26_6{-2 << 6, 4<<6 + 1} {
		for pos := 0; pos < 4; pos++ {
			isStart, isEnd := pos&1 != 0, pos&2 != 0
			o := copyOutput(*out)
			cc := *c
			cc.LetSp, cc.Pos = int(l), pos
			if !r.Guard("C12", &cc, func() { o.AddLetterSpacing(l, isStart, isEnd) }) {
				continue
			}
			r.Eval()
			half := l / 2
			for i := 0; i < len(o.Glyphs); {
				gc := out.Glyphs[i].GlyphCount
				if gc <= 0 || i+gc > len(o.Glyphs) {
					break // malformed clusters are C01's business
				}
				want := fixed.Int26_6(0)
				if i > 0 || !isStart {
					want += half
				}
				if i+gc < len(o.Glyphs) || !isEnd {
					want += half
				}
				var got fixed.Int26_6
				okSame := true
				for k := i; k < i+gc; k++ {
					g0, g1 := out.Glyphs[k], o.Glyphs[k]
					got += *adv(&g1) - *adv(&g0)
					if !same(g0, g1) {
						okSame = false
					}
				}
				if got != want || !okSame {
					r.Violation("C12:letter-spacing", &cc, fmt.Sprintf("cluster at glyph %d (%d glyphs): advance changed by %v, expected %v (isStartRun=%v isEndRun=%v)", i, gc, got, want, isStart, isEnd))
					break
				}
				i += gc
			}
			e.geometryAdvanceOnly(&cc, &o, ":after-letter-spacing")
		}
	}
	// AddSpacing over a list of runs equals the per-run calls
	{
		runs := []shaping.Output{copyOutput(*out), copyOutput(*out), copyOutput(*out)}
		want := []shaping.Output{copyOutput(*out), copyOutput(*out), copyOutput(*out)}
		cc := *c
		cc.WordSp, cc.LetSp = 5<<6, 4<<6
		if r.Guard("C12", &cc, func() {
			shaping.AddSpacing(runs, text, 5<<6, 4<<6)
			for i := range want {
				want[i].AddWordSpacing(text, 5<<6)
				want[i].AddLetterSpacing(4<<6, i == 0, i == len(want)-1)
			}
		}) {
			for i := range runs {
				eq := len(runs[i].Glyphs) == len(want[i].Glyphs) && runs[i].Advance == want[i].Advance
				for k := 0; eq && k < len(runs[i].Glyphs); k++ {
					eq = glyphEq(runs[i].Glyphs[k], want[i].Glyphs[k])
				}
				if !eq {
					r.Violation("C12:add-spacing-list", &cc, fmt.Sprintf("AddSpacing on run %d of 3 differs from AddWordSpacing+AddLetterSpacing with its position flags", i))
					break
				}
			}
		}
	}
}

func (e *shEnv) geometryAdvanceOnly(c *shCase, o *shaping.Output, what string) {
	var sum fixed.Int26_6
	for _, g := range o.Glyphs {
		if o.Direction.IsVertical() {
			sum += g.YAdvance
		} else {
			sum += g.XAdvance
		}
	}
	if sum != o.Advance {
		e.r.Violation("C12:advance-sum"+what, c, fmt.Sprintf("Advance=%v, glyph advances sum to %v", o.Advance, sum))
	}
}

func init() {
	Register(&mc.Check{
		ID: "C12", Level: "exploration",
		Rule: "the C01 font x string enumeration (whole text, 6 directions incl. sideways, sizes 1, 2, 16, 16.5, 63+63/64, 4096) through shaping.Shape; on every Output: Advance == sum of main-axis advances, cross-axis advances 0, GlyphBounds enclose the baseline and every ink box, LineBounds == font extents scaled by ceil(size)/upem (horizontal), " +
			"sideways output == clockwise rotation of the horizontal shaping about the dot (ink boxes, advances, glyph order); at size 16: AddWordSpacing {-3, +5.02} and AddLetterSpacing {-2, +4.02} x 4 run-position flag pairs change exactly the eligible advances by exactly the requested amounts, AddSpacing on a run list == per-run calls. Non-trivial = glyph count differs from rune count",
		Assumptions: []string{"vertical LineBounds are not recomputed independently (fonts without vertical metrics use a synthetic fallback)", "the spacing laws are evaluated on well-formed clusters (decided by C01)"},
		Shards:      shShards, Run: shRun("C12"), Replay: shReplay("C12"),
		MemLimit: 6 << 30,
		Bounds:   map[string]string{"quick": "as C01 quick (length <= 2; largest files length 1)", "thorough": "as C01 thorough (length <= 3)"},
	})
}

var _ = mc.Root
