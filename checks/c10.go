//go:build hb

package checks

// C10 — Decoded glyph metrics and outlines match independent decoders:
// golang.org/x/image/font/sfnt (cmap, advances, outlines) and the font functions of libharfbuzz 6.0.0
// (nominal glyphs, advances, extents, normalised coordinates, also for variable instances).

import (
	"encoding/binary"
	"encoding/json"
	"fmt"
	"path"
	"strconv"
	"strings"

	"github.com/go-text/typesetting/font"
	ot "github.com/go-text/typesetting/font/opentype"
	"github.com/go-text/typesetting/harfbuzz"
	xfont "golang.org/x/image/font"
	"golang.org/x/image/font/sfnt"
	"golang.org/x/image/math/fixed"

	"verif/corpus"
	"verif/hbref"
	"verif/mc"
)

type c10case struct {
	File   string    `json:"file"`
	Face   int       `json:"face"`
	Glyph  int       `json:"glyph"`
	Rune   int       `json:"rune,omitempty"`
	Coords []float32 `json:"coords,omitempty"`
	What   string    `json:"what"`
}

// unicodeCmap reports whether the font has a Unicode cmap subtable HarfBuzz 6.0.0 selects
// (independent reader of the cmap header).
func unicodeCmap(cmap []byte) bool {
	if len(cmap) < 4 {
		return false
	}
	n := int(binary.BigEndian.Uint16(cmap[2:]))
	for i := 0; i < n && 4+8*i+8 <= len(cmap); i++ {
		p := binary.BigEndian.Uint16(cmap[4+8*i:])
		e := binary.BigEndian.Uint16(cmap[4+8*i+2:])
		if p == 0 && e <= 6 || p == 3 && (e == 1 || e == 10) {
			return true
		}
	}
	return false
}

func glyphList(n int, quick bool, bigFace bool) []int {
	var out []int
	step := 1
	if quick && bigFace && n > 2000 {
		step = n / 2000
	}
	for g := 0; g < n; g += step {
		out = append(out, g)
	}
	if n > 0 && out[len(out)-1] != n-1 {
		out = append(out, n-1)
	}
	return out
}

func c10Face(r *mc.Reporter, f *corpus.File, fi int, ld *ot.Loader, tier string) {
	name := f.Name
	var ft *font.Font
	base := c10case{File: name, Face: fi}
	if !r.Guard("C10", &base, func() { ft, _ = font.NewFont(ld) }) || ft == nil {
		return
	}
	has := func(t string) bool { return ld.HasTable(ot.MustNewTag(t)) }
	face := font.NewFace(ft)
	hbGo := harfbuzz.NewFont(face)
	quick := false // both tiers walk every glyph, every mapped rune and every axis (49 s)
	_ = tier
	big := len(f.Data) > 1<<20
	var ref *hbref.Font
	bothOutlines := has("CFF ") && has("glyf") // test fonts with two different drawings: the decoders document different preferences
	// ---------------- libharfbuzz font functions ----------------
	if !strings.HasSuffix(name, ".woff") && !strings.HasSuffix(name, ".dfont") {
		ref = hbref.NewFont(f.Data, fi)
		defer ref.Close()
		if ref.Upem != int(ft.Upem()) {
			r.Violation("C10:hb:upem", &base, fmt.Sprintf("Upem %d, harfbuzz %d", ft.Upem(), ref.Upem))
		}
		gl := glyphList(ref.NumGlyphs, quick, big)
		comparable := !has("EBLC") && !has("bloc") && !has("COLR") && !has("sbix") && !has("CBLC") && !has("SVG ") // bitmap / colour extents: other code paths in libharfbuzz
		// nominal glyphs: every rune of the character map (and probes), when a Unicode subtable exists
		if raw, err := ld.RawTable(ot.MustNewTag("cmap")); err == nil && unicodeCmap(raw) {
			it := ft.Cmap.Iter()
			n := 0
			for it.Next() {
				ru, g := it.Char()
				n++
				if quick && big && n%7 != 0 {
					continue
				}
				r.Eval()
				if hg, ok := ref.NominalGlyph(ru); g != 0 && (!ok || hg != uint32(g)) {
					cs := base
					cs.Rune, cs.What = int(ru), "nominal-glyph"
					r.Violation("C10:hb:nominal-glyph", &cs, fmt.Sprintf("%s U+%04X: NominalGlyph %d, harfbuzz (%d,%v)", path.Base(name), ru, g, hg, ok))
					break
				}
			}
			for _, ru := range []rune{0, ' ', 'A', 0xE9, 0x3A9, 0x5D0, 0x627, 0x4E2D, 0xFFFF, 0x1F600, 0x10FFFF} {
				g, ok := ft.NominalGlyph(ru)
				hg, hok := ref.NominalGlyph(ru)
				if (ok && g != 0) != (hok && hg != 0) || (ok && hok && uint32(g) != hg) {
					cs := base
					cs.Rune, cs.What = int(ru), "nominal-glyph"
					r.Violation("C10:hb:nominal-glyph", &cs, fmt.Sprintf("%s U+%04X: NominalGlyph (%d,%v), harfbuzz (%d,%v)", path.Base(name), ru, g, ok, hg, hok))
				}
			}
		} else {
			r.Count("faces_without_unicode_cmap(nominal glyphs not compared)", 1)
		}
		// coordinates: default, per-axis min/max, all min, all max, outside the range, interior points
		axes := corpus.Axes(ld)
		coordSets := [][]float32{nil}
		if len(axes) > 0 {
			def := make([]float32, len(axes))
			allMin, allMax, out1, mid := make([]float32, len(axes)), make([]float32, len(axes)), make([]float32, len(axes)), make([]float32, len(axes))
			for i, a := range axes {
				def[i] = a.Default
				allMin[i], allMax[i] = a.Minimum, a.Maximum
				out1[i] = a.Maximum + (a.Maximum-a.Minimum)/10
				mid[i] = a.Default + (a.Maximum-a.Default)/3
			}
			coordSets = append(coordSets, allMin, allMax, out1, mid)
			for i, a := range axes {
				if i >= 4 && quick {
					break
				}
				lo, hi, q := append([]float32(nil), def...), append([]float32(nil), def...), append([]float32(nil), def...)
				lo[i], hi[i] = a.Minimum, a.Maximum
				q[i] = a.Minimum + (a.Default-a.Minimum)*0.6
				coordSets = append(coordSets, lo, hi, q)
			}
		}
		for _, coords := range coordSets {
			if r.Expired() {
				break
			}
			cbase := base
			cbase.Coords = coords
			if coords == nil {
				face.SetCoords(nil)
				ref.SetDesignCoords(nil)
			} else {
				face.SetCoords(ft.NormalizeVariations(coords))
				ref.SetDesignCoords(coords)
				// normalised coordinates
				got := face.Coords()
				want := ref.NormalizedCoords()
				okc := len(got) == len(want)
				for i := 0; okc && i < len(got); i++ {
					okc = int(got[i]) == want[i]
				}
				r.Eval()
				if !okc {
					cs := cbase
					cs.What = "normalized-coords"
					r.Violation("C10:hb:normalized-coords", &cs, fmt.Sprintf("%s design %v: normalized %v, harfbuzz %v", path.Base(name), coords, got, want))
				}
			}
			for _, g := range gl {
				r.Eval()
				cs := cbase
				cs.Glyph = g
				var adv, vadv int
				var ext harfbuzz.GlyphExtents
				var eok bool
				if !r.Guard("C10", &cs, func() {
					adv = int(hbGo.GlyphHAdvance(harfbuzz.GID(g)))
					_, y := hbGo.GlyphAdvanceForDirection(harfbuzz.GID(g), harfbuzz.TopToBottom)
					vadv = int(y)
					ext, eok = hbGo.GlyphExtents(harfbuzz.GID(g))
				}) {
					continue
				}
				key := ""
				msg := ""
				if w := ref.HAdvance(uint32(g)); w != adv {
					key, msg = "h-advance", fmt.Sprintf("HAdvance %d, harfbuzz %d", adv, w)
				} else if w := ref.VAdvance(uint32(g)); w != vadv && ft.HasVerticalMetrics() {
					key, msg = "v-advance", fmt.Sprintf("VAdvance %d, harfbuzz %d", vadv, w)
				} else if comparable {
					we, wok := ref.GlyphExtents(uint32(g))
					tol := 0
					if coords != nil {
						tol = 1 // extents of an instance are rounded from floats; the rounding of the far edge changed between HarfBuzz releases
					}
					near := func(a int32, b int) bool { d := int(a) - b; return d >= -tol && d <= tol }
					if wok != eok || (eok && !(near(ext.XBearing, we.XBearing) && near(ext.YBearing, we.YBearing) && near(ext.Width, we.Width) && near(ext.Height, we.Height))) {
						key, msg = "extents", fmt.Sprintf("extents (%+v,%v), harfbuzz (%+v,%v)", ext, eok, we, wok)
					}
				}
				if key == "" && !bothOutlines && !has("COLR") && !has("SVG ") && !has("sbix") && !has("CBLC") && !has("EBDT") && !has("bdat") {
					var data font.GlyphData
					if !r.Guard("C10", &cs, func() { data = face.GlyphData(font.GID(g)) }) {
						continue
					}
					ol, _ := data.(font.GlyphOutline)
					if m := c10SameDraw(ol.Segments, ref.Draw(uint32(g)), float32(ft.Upem())); m != "" {
						key, msg = "outline", m
					}
				}
				if key != "" {
					kind := "default"
					if coords != nil {
						kind = "variable"
					}
					cs.What = key
					r.Violation("C10:hb:"+key+":"+kind, &cs, fmt.Sprintf("%s glyph %d coords %v: %s", path.Base(name), g, coords, msg))
					break
				}
				if r.WantSample() && g == gl[len(gl)/2] {
					r.Sample(map[string]any{"file": name, "face": fi, "glyph": g, "coords": coords, "h_advance": adv, "extents": fmt.Sprintf("%+v", ext), "outline_ops_libharfbuzz": len(ref.Draw(uint32(g)))})
				}
				r.Outcome(uint64(adv)<<20^uint64(uint32(ext.Width))^uint64(g%7)<<50, adv != 0)
			}
		}
		face.SetCoords(nil)
		ref.SetDesignCoords(nil)
		r.Count("faces_vs_harfbuzz", 1)
	}
	// ---------------- x/image sfnt: cmap, advances, outlines at ppem = upem ----------------
	var sf *sfnt.Font
	var err error
	func() {
		defer func() { recover() }()
		if col, e := sfnt.ParseCollection(f.Data); e == nil && col.NumFonts() > fi {
			sf, err = col.Font(fi)
		} else {
			sf, err = sfnt.Parse(f.Data)
		}
	}()
	if sf == nil || err != nil {
		r.Count("faces_not_read_by_x_image_sfnt", 1)
		return
	}
	var buf sfnt.Buffer
	ppem := fixed.Int26_6(ft.Upem()) << 6
	if int(sf.UnitsPerEm()) != int(ft.Upem()) {
		r.Violation("C10:sfnt:upem", &base, fmt.Sprintf("Upem %d, x/image %d", ft.Upem(), sf.UnitsPerEm()))
		return
	}
	n := sf.NumGlyphs()
	face = font.NewFace(ft)
	c10Upem = int(ft.Upem())
	c10TTTol = fixed.Int26_6(ft.Upem()) * 64 / 128
	if c10TTTol < 4*64 {
		c10TTTol = 4 * 64
	}
	isCFF := has("CFF ")
	if isCFF && has("glyf") {
		// test fonts carrying both outline tables with different drawings: the decoders document different preferences
		r.Count("faces_with_both_glyf_and_CFF(outlines not compared)", 1)
		return
	}
	for _, g := range glyphList(n, quick, big) {
		if r.Expired() {
			break
		}
		r.Eval()
		cs := base
		cs.Glyph = g
		// advance
		if a, e := sf.GlyphAdvance(&buf, sfnt.GlyphIndex(g), ppem, xfont.HintingNone); e == nil && float64(face.HorizontalAdvance(font.GID(g)))*float64(ppem) < 1<<31 { // x/image scales in 32-bit fixed point
			if got := fixed.Int26_6(face.HorizontalAdvance(font.GID(g)) * 64); got != a {
				cs.What = "advance"
				r.Violation("C10:sfnt:advance", &cs, fmt.Sprintf("%s glyph %d: HorizontalAdvance %v, x/image %v (26.6)", path.Base(name), g, got, a))
				break
			}
		}
		// outline
		segs, e := sf.LoadGlyph(&buf, sfnt.GlyphIndex(g), ppem, nil)
		if e != nil {
			r.Count("glyphs_x_image_cannot_load(skipped)", 1)
			continue
		}
		var data font.GlyphData
		if !r.Guard("C10", &cs, func() { data = face.GlyphData(font.GID(g)) }) {
			continue
		}
		ol, isOutline := data.(font.GlyphOutline)
		if !isOutline {
			if len(segs) != 0 {
				r.Count("glyphs_not_returned_as_outline(skipped)", 1)
			}
			continue
		}
		if isCFF {
			// x/image closes CFF contours explicitly and drops degenerate moves: compare the on/off-curve point sequence loosely
			if !c10SameCFF(ol.Segments, segs) {
				cs.What = "outline-cff"
				r.Violation("C10:sfnt:outline-cff", &cs, fmt.Sprintf("%s glyph %d: CFF outline differs from x/image: %s vs %s", path.Base(name), g, mc.Trunc(fmt.Sprint(ol.Segments), 200), mc.Trunc(fmt.Sprint(segs), 200)))
				break
			}
			continue
		}
		ext, haveExt := face.GlyphExtents(font.GID(g))
		msg := c10SameTT(ol.Segments, segs, ext.XBearing, haveExt)
		if strings.HasPrefix(msg, "outline shifted") && ref != nil && c10SameDraw(ol.Segments, ref.Draw(uint32(g)), float32(ft.Upem())) == "" {
			// USE_MY_METRICS component with its own side bearing: the shift is the one libharfbuzz draws with
			r.Count("glyphs_shifted_like_harfbuzz_draw(use-my-metrics)", 1)
			msg = ""
		}
		if msg != "" {
			cs.What = "outline"
			r.Violation("C10:sfnt:outline", &cs, fmt.Sprintf("%s glyph %d: %s", path.Base(name), g, msg))
			break
		}
		r.Outcome(uint64(len(segs))<<8|uint64(g%5), len(segs) > 0)
	}
	r.Count("faces_vs_x_image_sfnt", 1)
}

var c10TTTol fixed.Int26_6 = 16 * 64 // set per face to upem/128: x/image rounds the points of transformed components (and their offsets) to whole units at several stages

var c10Upem = 1000

const c10CFFTol = 8 * 64 // 8 font units in 26.6 (rounding of every fractional operand accumulates along a contour)

func pt26(p ot.SegmentPoint) (fixed.Int26_6, fixed.Int26_6) {
	return fixed.Int26_6(p.X * 64), fixed.Int26_6(-p.Y * 64)
}

// TrueType outlines: segment by segment, exact in 26.6 (y axis flipped in x/image).
// go-text (like HarfBuzz and FreeType) shifts a glyf outline horizontally so that its xMin equals the left side
// bearing of hmtx; x/image does not. A uniform horizontal shift is therefore accepted only when it moves the
// smallest x of the x/image outline onto the XBearing that GlyphExtents reports (itself compared with HarfBuzz).
func c10SameTT(a []ot.Segment, b sfnt.Segments, xBearing float32, haveExt bool) string {
	if len(a) != len(b) {
		return fmt.Sprintf("%d segments, x/image %d", len(a), len(b))
	}
	var shift fixed.Int26_6
	if len(a) > 0 && len(a[0].ArgsSlice()) > 0 {
		x, _ := pt26(a[0].ArgsSlice()[0])
		if d := x - b[0].Args[0].X; d < -c10TTTol || d > c10TTTol {
			shift = d
		}
	}
	minX := fixed.Int26_6(1 << 30)
	for i := range a {
		if int(a[i].Op) != int(b[i].Op) {
			return fmt.Sprintf("segment %d: op %d, x/image %d", i, a[i].Op, b[i].Op)
		}
		for k, p := range a[i].ArgsSlice() {
			if ax, ay := float64(p.X), float64(p.Y); (ax*ax > 1.0e6 || ay*ay > 1.0e6) && (ax*ax*float64(c10Upem)*float64(c10Upem)*4096 >= 4.6e18 || ay*ay*float64(c10Upem)*float64(c10Upem)*4096 >= 4.6e18) {
				return "" // |coordinate| x ppem overflows the 32-bit fixed point arithmetic of x/image
			}
			x, y := pt26(p)
			if b[i].Args[k].X < minX {
				minX = b[i].Args[k].X
			}
			// implied on-curve points (midpoints of two control points) are rounded down to a whole unit by x/image
			dx, dy := x-shift-b[i].Args[k].X, y-b[i].Args[k].Y
			if dx < -c10TTTol || dx > c10TTTol || dy < -c10TTTol || dy > c10TTTol { // upem/128: x/image rounds the transformed points of scaled components to whole units, go-text keeps fractions
				return fmt.Sprintf("segment %d point %d: (%v,%v), x/image (%v,%v) shift %v", i, k, x, y, b[i].Args[k].X, b[i].Args[k].Y, shift)
			}
		}
	}
	if shift != 0 {
		if !haveExt {
			return fmt.Sprintf("outline shifted by %v against x/image without extents", shift)
		}
		if d := fixed.Int26_6(xBearing*64) - (minX + shift); d < -2*c10TTTol || d > 2*c10TTTol {
			return fmt.Sprintf("outline shifted by %v against x/image, but XBearing %v is not min x %v + shift", shift, xBearing, minX)
		}
	}
	return ""
}

// c10Contours normalises a path into contours of drawing segments: closing operators, zero-length lines and the
// line that returns to the start of a contour are dropped (the two decoders close contours differently), and
// contours without any drawing segment are dropped.
type c10seg struct {
	op  int // 1 line, 2 quad, 3 cubic
	pts [6]float32
}

func c10Contours(ops []int, args [][6]float32) [][]c10seg {
	var out [][]c10seg
	var cur []c10seg
	var sx, sy, cx, cy float32
	flush := func() {
		for len(cur) > 0 {
			l := cur[len(cur)-1]
			if l.op == 1 && l.pts[0] == sx && l.pts[1] == sy {
				cur = cur[:len(cur)-1]
				continue
			}
			break
		}
		if len(cur) > 0 {
			out = append(out, cur)
		}
		cur = nil
	}
	for i, op := range ops {
		a := args[i]
		switch op {
		case 0:
			flush()
			sx, sy, cx, cy = a[0], a[1], a[0], a[1]
		case 1:
			if a[0] == cx && a[1] == cy {
				continue
			}
			cur = append(cur, c10seg{1, a})
			cx, cy = a[0], a[1]
		case 2:
			cur = append(cur, c10seg{2, a})
			cx, cy = a[2], a[3]
		case 3:
			cur = append(cur, c10seg{3, a})
			cx, cy = a[4], a[5]
		case 4:
			// close: implicit
		}
	}
	flush()
	return out
}

// c10SameDraw compares the outline of GlyphData with the draw callbacks of libharfbuzz (same unit: font units).
func c10SameDraw(a []ot.Segment, b []hbref.PathOp, upem float32) string {
	var ops []int
	var args [][6]float32
	for _, s := range a {
		var x [6]float32
		for k, p := range s.ArgsSlice() {
			x[2*k], x[2*k+1] = p.X, p.Y
		}
		ops, args = append(ops, int(s.Op)), append(args, x)
	}
	ca := c10Contours(ops, args)
	ops, args = ops[:0], args[:0]
	for _, s := range b {
		ops, args = append(ops, s.Op), append(args, s.Args)
	}
	cb := c10Contours(ops, args)
	if len(ca) != len(cb) {
		return fmt.Sprintf("outline has %d contours, harfbuzz draws %d", len(ca), len(cb))
	}
	eps := upem / 4096
	for i := range ca {
		if len(ca[i]) != len(cb[i]) {
			return fmt.Sprintf("contour %d has %d segments, harfbuzz draws %d", i, len(ca[i]), len(cb[i]))
		}
		for j := range ca[i] {
			x, y := ca[i][j], cb[i][j]
			if x.op != y.op {
				return fmt.Sprintf("contour %d segment %d: op %d, harfbuzz %d", i, j, x.op, y.op)
			}
			for k := 0; k < 2*x.op; k++ {
				if d := x.pts[k] - y.pts[k]; d < -eps || d > eps {
					return fmt.Sprintf("contour %d segment %d: %v, harfbuzz %v", i, j, x.pts[:2*x.op], y.pts[:2*y.op])
				}
			}
		}
	}
	return ""
}

// CFF: compare the sequence of curve end points and control points ignoring explicit closing lines
func c10SameCFF(a []ot.Segment, b sfnt.Segments) bool {
	type pt struct{ x, y fixed.Int26_6 }
	flat := func(ops []int, pts [][]pt) []pt {
		var out []pt
		var start pt
		for i, op := range ops {
			p := pts[i]
			if op == 0 {
				start = p[0]
			}
			if op == 1 && p[0] == start {
				continue // closing line
			}
			if op == 0 {
				continue
			}
			out = append(out, p...)
		}
		return out
	}
	var opsA, opsB []int
	var ptsA, ptsB [][]pt
	for _, s := range a {
		opsA = append(opsA, int(s.Op))
		var ps []pt
		for _, p := range s.ArgsSlice() {
			x, y := pt26(p)
			ps = append(ps, pt{x, y})
		}
		ptsA = append(ptsA, ps)
	}
	for _, s := range b {
		opsB = append(opsB, int(s.Op))
		nargs := []int{1, 1, 2, 3}[s.Op]
		var ps []pt
		for k := 0; k < nargs; k++ {
			ps = append(ps, pt{s.Args[k].X, s.Args[k].Y})
		}
		ptsB = append(ptsB, ps)
	}
	fa, fb := flat(opsA, ptsA), flat(opsB, ptsB)
	if len(fa) != len(fb) {
		return false
	}
	for i := range fa {
		// x/image rounds the fractional operands of a charstring to integers: points agree within a few units
		dx, dy := fa[i].x-fb[i].x, fa[i].y-fb[i].y
		if dx < -c10CFFTol || dx > c10CFFTol || dy < -c10CFFTol || dy > c10CFFTol {
			return false
		}
	}
	return true
}

func c10Run(tier, shard string, r *mc.Reporter) {
	i, _ := strconv.Atoi(shard)
	f := &corpus.Files()[i]
	for fi, ld := range corpus.Loaders(f) {
		if r.Expired() {
			r.Incomplete("deadline in " + f.Name)
			return
		}
		c10Face(r, f, fi, ld, tier)
	}
}

func c10Replay(raw json.RawMessage, r *mc.Reporter) {
	var c c10case
	if json.Unmarshal(raw, &c) != nil || c.File == "" {
		return
	}
	f := corpus.Get(c.File)
	if f == nil {
		return
	}
	lds := corpus.Loaders(f)
	if c.Face < len(lds) {
		c10Face(r, f, c.Face, lds[c.Face], "thorough")
	}
}

func init() {
	Register(&mc.Check{
		ID: "C10", Level: "exploration",
		Rule: "every corpus face: (hb) every glyph id (quick: 2000 evenly spaced for files > 1 MiB) x coordinate sets {default; all axes min, max, 10% beyond max, interior; each axis min, max, interior}: horizontal/vertical advance and extents of harfbuzz.Font (scale = upem) and the normalised coordinates vs libharfbuzz 6.0.0 font functions; every mapped rune: NominalGlyph vs hb_font_get_nominal_glyph when the font has a Unicode cmap subtable; " +
			"(sfnt) units per em, horizontal advance and outline segments of every glyph vs golang.org/x/image/font/sfnt at ppem = upem without hinting (TrueType within max(4, upem/128) units, CFF point sequences within 8 units: x/image rounds fractional operands). Non-trivial = non-zero advance / non-empty outline",
		Assumptions: []string{"extents are not compared on faces with embedded bitmaps, COLR, sbix or SVG tables (other extents sources in libharfbuzz)", "glyphs x/image cannot load (unsupported composite flags, CFF operators) are skipped and counted",
			"uharfbuzz named in the property is not installed; the C library is bound directly"},
		Shards: shShards, Run: c10Run, Replay: c10Replay,
		MemLimit: 8 << 30,
		Bounds:   map[string]string{"quick": "all faces, all glyphs, all mapped runes, all axes", "thorough": "same"},
	})
}
