package checks

// Enumeration driver for the wrapper family: C02, C03, C04 share it; the check id selects the laws.

import (
	"encoding/json"
	"fmt"
	"strconv"

	"github.com/go-text/typesetting/segmenter"
	"github.com/go-text/typesetting/shaping"

	"verif/mc"
)

var wAlphabet = []rune{'a', ' ', '\n', '-', 0x0301, 0x05D0, '1', 0x00A0, 0x200B}

type wrapTier struct {
	alphabet       []rune
	maxLen         int
	maxRuns        int
	multiGlyph     bool
	secondary      bool
	maxWidths      int
	pairwiseLen    int       // secondary axes are crossed pairwise for texts up to this length
	secondaryMulti bool      // secondary axes also on structures with a 2-glyph cluster
	extra          *wrapTier // additional, longer enumeration over a smaller alphabet
	name           string
}

func wrapTierFor(tier string) *wrapTier {
	if tier == "thorough" {
		return &wrapTier{alphabet: wAlphabet, maxLen: 4, maxRuns: 3, multiGlyph: true, secondary: true, secondaryMulti: false, pairwiseLen: 3, maxWidths: 0, name: "len<=4 over 9 symbols, <=3 runs, secondary axes on single-glyph cluster structures (pairwise for len<=3)",
			extra: &wrapTier{alphabet: []rune{'a', ' ', '\n', 0x05D0, 0x0301}, maxLen: 6, maxRuns: 2, multiGlyph: true, secondary: false, maxWidths: 12, name: "len 5..6 over 5 symbols, <=2 runs, primary axes"}}
	}
	return &wrapTier{alphabet: wAlphabet, maxLen: 3, maxRuns: 3, multiGlyph: true, secondary: true, pairwiseLen: 2, maxWidths: 0, name: "len<=3 over 9 symbols, <=3 runs, secondary axes on single-glyph cluster structures",
		extra: &wrapTier{alphabet: []rune{'a', ' ', '\n', 0x05D0, 0x0301}, maxLen: 4, maxRuns: 2, multiGlyph: false, secondary: false, maxWidths: 10, name: "len 4 over 5 symbols, <=2 runs, primary axes"}}
}

const wrapShards = 512 // many small shards: all workers advance through the length-lexicographic order together, so a deadline cuts at about the same text everywhere

func wrapShardList(tier string) []string {
	var s []string
	for i := 0; i < wrapShards; i++ {
		s = append(s, strconv.Itoa(i))
	}
	return s
}

// texts enumerates all strings over the alphabet with minLen <= len <= maxLen in length-lexicographic order
func enumTexts(alphabet []rune, minLen, maxLen int, f func(idx int, t []rune) bool) {
	idx := 0
	for n := minLen; n <= maxLen; n++ {
		cur := make([]int, n)
		for {
			t := make([]rune, n)
			for i, v := range cur {
				t[i] = alphabet[v]
			}
			if !f(idx, t) {
				return
			}
			idx++
			i := n - 1
			for i >= 0 {
				cur[i]++
				if cur[i] < len(alphabet) {
					break
				}
				cur[i] = 0
				i--
			}
			if i < 0 {
				break
			}
		}
	}
}

type wrapEnv struct {
	primaryIter int // iterator mode of the primary axes in this shard (odd shards: one reused iterator object)
	r           *mc.Reporter
	laws        lawSet
	seg         segmenter.Segmenter
	lw          shaping.LineWrapper
	prop        string
}

func (e *wrapEnv) one(c *wCase, p *mPara) {
	if p == nil {
		p = buildPara(c, &e.seg)
		if p == nil {
			return
		}
	} else {
		p.c = c
	}
	e.r.Eval()
	sig, nt := checkWrap(e.r, p, &e.lw, e.laws)
	e.r.OutcomeStr(sig, nt)
	if nt && e.r.WantSample() && len(c.Runs) > 1 {
		e.r.Sample(c)
	}
}

// enumerate every configuration of one text
func (e *wrapEnv) text(t []rune, wt *wrapTier) {
	n := len(t)
	if n == 0 {
		for pol := 0; pol < 3; pol++ {
			for drv := 0; drv < 2; drv++ {
				c := &wCase{Text: t, Widths: []int{10}, Policy: pol, Driver: drv}
				e.one(c, nil)
				c2 := *c
				c2.Trunc, c2.Truncator, c2.Continues = 1, 1, true
				e.one(&c2, nil)
			}
		}
		return
	}
	for _, split := range runSplits(n, wt.maxRuns) {
		nr := len(split)
		for dv := 0; dv < 1<<nr; dv++ {
			// cluster structures: product over runs of compositions
			var comps [][][]int
			for _, l := range split {
				comps = append(comps, compositions(l, 3))
			}
			idx := make([]int, nr)
			for {
				runs := make([]wRun, nr)
				total := 0
				for ri := range runs {
					runs[ri].Dir = (dv >> ri) & 1
					for _, cr := range comps[ri][idx[ri]] {
						runs[ri].Clusters = append(runs[ri].Clusters, wCluster{R: cr, G: 1})
						total++
					}
				}
				e.structure(t, runs, wt, false)
				if wt.multiGlyph {
					// exactly one cluster with two glyphs, at every position
					k := 0
					for ri := range runs {
						for ci := range runs[ri].Clusters {
							cp := make([]wRun, nr)
							for x := range runs {
								cp[x] = wRun{Dir: runs[x].Dir, Clusters: append([]wCluster(nil), runs[x].Clusters...)}
							}
							cp[ri].Clusters[ci].G = 2
							e.structure(t, cp, wt, true)
							k++
						}
					}
				}
				// next structure
				i := nr - 1
				for i >= 0 {
					idx[i]++
					if idx[i] < len(comps[i]) {
						break
					}
					idx[i] = 0
					i--
				}
				if i < 0 {
					break
				}
			}
		}
	}
}

func (e *wrapEnv) structure(t []rune, runs []wRun, wt *wrapTier, multi bool) {
	if e.r.Expired() {
		return
	}
	base := wCase{Text: t, Runs: runs, Widths: []int{0}}
	p := buildPara(&base, &e.seg)
	if p == nil {
		return
	}
	ws := p.criticalWidths(wt.maxWidths)
	e.r.Max("max_widths_per_structure", int64(len(ws)))
	// primary axes: policy x paragraph direction x width
	for pol := 0; pol < 3; pol++ {
		for pd := 0; pd < 2; pd++ {
			for _, w := range ws {
				c := base
				c.Policy, c.PDir, c.Widths, c.Iter = pol, pd, []int{w}, e.primaryIter
				e.one(&c, p)
			}
		}
	}
	if !wt.secondary || (multi && !wt.secondaryMulti) {
		return
	}
	// secondary axes, one at a time against policy x width (paragraph direction alternating with policy)
	sec := func(mod func(c *wCase), rebuild bool) {
		for pol := 0; pol < 3; pol++ {
			for pd := 0; pd < 2; pd++ {
				c0 := base
				c0.Policy, c0.PDir = pol, pd
				mod(&c0)
				pp := p
				wl := ws
				if rebuild {
					pp = buildPara(&c0, &e.seg)
					if pp == nil {
						return
					}
					wl = pp.criticalWidths(wt.maxWidths)
				}
				for _, w := range wl {
					c := c0
					if len(c.Widths) > 1 {
						// width sequences are derived from w
						c.Widths = widthSeq(c.Widths[0], w, ws)
					} else {
						c.Widths = []int{w}
					}
					if rebuild {
						e.one(&c, nil)
					} else {
						e.one(&c, pp)
					}
				}
			}
		}
	}
	type axisVal struct {
		group string
		mod   func(c *wCase)
	}
	var axes []axisVal
	for trunc := 1; trunc <= 2; trunc++ {
		for tr := 0; tr < 3; tr++ {
			for _, cont := range []bool{false, true} {
				trunc, tr, cont := trunc, tr, cont
				axes = append(axes, axisVal{"trunc", func(c *wCase) { c.Trunc, c.Truncator, c.Continues = trunc, tr, cont }})
			}
		}
	}
	for _, cont := range []bool{false, true} {
		cont := cont
		axes = append(axes, axisVal{"trunc", func(c *wCase) { c.Trunc, c.Truncator, c.Continues = 1, 3, cont }})
	}
	axes = append(axes, axisVal{"notrim", func(c *wCase) { c.NoTrim = true }})
	axes = append(axes, axisVal{"iter", func(c *wCase) { c.Iter = 1 }})
	for seq := 1; seq <= 3; seq++ {
		seq := seq
		axes = append(axes, axisVal{"driver", func(c *wCase) { c.Driver = 1; c.Widths = []int{seq, 0} }})
	}
	for _, sp := range [][2]int{{4 << 6, 0}, {0, 2 << 6}, {0, -(2 << 6)}, {3 << 6, 3<<6 + 1}} {
		sp := sp
		axes = append(axes, axisVal{"spacing", func(c *wCase) { c.WordSp, c.LetterSp = sp[0], sp[1] }})
	}
	// vertical runs (C02 only): all runs TTB or BTT by progression of the horizontal vector
	if e.laws.c02 {
		axes = append(axes, axisVal{"vertical", func(c *wCase) {
			rs := make([]wRun, len(c.Runs))
			for i, r := range c.Runs {
				rs[i] = wRun{Dir: r.Dir + 2, Clusters: r.Clusters}
			}
			c.Runs = rs
			c.PDir += 2
		}})
	}
	for _, a := range axes {
		sec(a.mod, true)
	}
	// pairwise crossing of the secondary axes (values of different groups), for short texts
	if len(t) <= wt.pairwiseLen {
		for i, a := range axes {
			for _, b := range axes[i+1:] {
				if a.group == b.group {
					continue
				}
				a, b := a, b
				sec(func(c *wCase) { a.mod(c); b.mod(c) }, true)
			}
		}
	} else {
		// always: letter spacing x {trim disabled, truncation, WrapNextLine}
		sec(func(c *wCase) { c.LetterSp = 2 << 6; c.NoTrim = true }, true)
		sec(func(c *wCase) { c.LetterSp = 2 << 6; c.Trunc = 1; c.Truncator = 1 }, true)
		sec(func(c *wCase) { c.LetterSp = 2 << 6; c.Driver = 1; c.Widths = []int{2, 0} }, true)
		sec(func(c *wCase) { c.Driver = 1; c.Trunc = 2; c.Truncator = 1; c.Widths = []int{2, 0} }, true)
	}
}

// long paragraphs: 24 and 60 words of narrow, normal and wide letters (proportional advances), as one run, as runs of
// two clusters and as one run per word and per space (119 runs: more than the 100 outputs the wrapper keeps inline),
// x directions x policies x widths from one word to several words per line x letter spacing x drivers x iterators
func (e *wrapEnv) long(part int) {
	words := []string{"iWi", "a", "WW", "iiia", "Wa", "i", "aWaW", "ia"}
	for _, nw := range []int{24, 60} {
		var t []rune
		var wordRuns []wRun
		for k := 0; k < nw; k++ {
			if k > 0 {
				t = append(t, ' ')
				wordRuns = append(wordRuns, wRun{Clusters: []wCluster{{1, 1}}})
			}
			w := []rune(words[(k*3+k/8)%len(words)])
			t = append(t, w...)
			var cl []wCluster
			for range w {
				cl = append(cl, wCluster{1, 1})
			}
			wordRuns = append(wordRuns, wRun{Clusters: cl})
		}
		var one, pairs []wCluster
		for range t {
			one = append(one, wCluster{1, 1})
		}
		var pairRuns []wRun
		for i := 0; i < len(t); i += 2 {
			n := 2
			if i+2 > len(t) {
				n = len(t) - i
			}
			pairs = nil
			for j := 0; j < n; j++ {
				pairs = append(pairs, wCluster{1, 1})
			}
			pairRuns = append(pairRuns, wRun{Clusters: pairs})
		}
		structures := [][]wRun{{{Dir: 0, Clusters: one}}, {{Dir: 1, Clusters: one}}, wordRuns, pairRuns}
		idx := 0
		for _, runs := range structures {
			for pol := 0; pol < 3; pol++ {
				for _, w := range []int{20, 33, 47, 75, 110, 180} {
					for _, lsp := range []int{0, 2 << 6} {
						for drv := 0; drv < 2; drv++ {
							for it := 0; it < 3; it++ {
								idx++
								if idx%8 != part || e.r.Expired() {
									continue
								}
								c := &wCase{Text: t, Runs: runs, Widths: []int{w}, Policy: pol, PDir: runs[0].Dir, LetterSp: lsp, Driver: drv, Iter: it}
								if drv == 1 {
									c.Widths = []int{w, w}
								}
								if it == 0 {
									e.lw = shaping.LineWrapper{} // a wrapper whose inline buffers have never grown
								}
								e.one(c, nil)
							}
						}
					}
				}
			}
		}
	}
	e.r.Count("long_paragraph_parts", 1)
}

// widthSeq builds a per-line width sequence: kind 1 constant through WrapNextLine, 2 decreasing, 3 alternating 0/wide
func widthSeq(kind, w int, ws []int) []int {
	switch kind {
	case 1:
		return []int{w, w}
	case 2:
		return []int{w, w / 2, w / 4, 0}
	default:
		return []int{0, w, 0, ws[len(ws)-1]}
	}
}

func wrapRun(prop string, laws lawSet) func(tier, shard string, r *mc.Reporter) {
	return func(tier, shard string, r *mc.Reporter) {
		sh, _ := strconv.Atoi(shard)
		wt := wrapTierFor(tier)
		e := &wrapEnv{r: r, laws: laws, prop: prop}
		if sh%2 == 1 {
			e.primaryIter = 2
		}
		run := func(wt *wrapTier, minLen int) {
			// consecutive blocks of the length-lexicographic order: completed shards form a prefix of it
			total := 0
			for l, p := minLen, 1; l <= wt.maxLen; l++ {
				p = 1
				for k := 0; k < l; k++ {
					p *= len(wt.alphabet)
				}
				total += p
			}
			block := (total + wrapShards - 1) / wrapShards
			enumTexts(wt.alphabet, minLen, wt.maxLen, func(idx int, t []rune) bool {
				if idx/block < sh {
					return true
				}
				if idx/block > sh {
					return false
				}
				if r.Expired() {
					r.Incomplete(fmt.Sprintf("deadline reached in tier part %q at text #%d %q", wt.name, idx, string(t)))
					return false
				}
				e.text(t, wt)
				return true
			})
		}
		if sh >= wrapShards-8 {
			e.long(sh - (wrapShards - 8))
		}
		run(wt, 0)
		if wt.extra != nil && !r.Expired() {
			run(wt.extra, wt.maxLen+1)
		}
		// every character with a mandatory line break class (BK, CR, LF, NL), so that code reading
		// runes literally instead of through the segmenter is not hidden by the class quotient
		if !r.Expired() {
			mb := &wrapTier{alphabet: []rune{'a', ' ', '\n', '\r', 0x0085, 0x000B, 0x000C, 0x2028, 0x2029}, maxLen: 3, maxRuns: 2, multiGlyph: false, secondary: false, maxWidths: 0,
				name: "mandatory-break alphabet {a,SP,LF,CR,NEL,VT,FF,LS,PS} len 1..3, <=2 runs, primary axes"}
			if tier == "thorough" {
				mb.maxLen, mb.multiGlyph, mb.secondary = 4, true, true
			}
			run(mb, 1)
		}
	}
}

func wrapReplay(laws lawSet) func(c json.RawMessage, r *mc.Reporter) {
	return func(raw json.RawMessage, r *mc.Reporter) {
		var c wCase
		if err := json.Unmarshal(raw, &c); err != nil {
			r.Violation("replay:bad-case", nil, err.Error())
			return
		}
		e := &wrapEnv{r: r, laws: laws}
		e.one(&c, nil)
		// explanation for the reader of a replay
		if p := buildPara(&c, &e.seg); p != nil {
			fmt.Printf("case: %s\n boundaries: cs=%v lb=%v mb=%v gb=%v\n", c.String(), bools(p.cs), bools(p.lb), bools(p.mb), bools(p.gb))
			func() {
				defer func() { recover() }()
				res, _ := p.wrap(&e.lw)
				if res == nil {
					return
				}
				for i, l := range res.lines {
					fmt.Printf(" line %d width=%d:", i, l.width)
					for _, run := range l.runs {
						fmt.Printf(" [%d,%d) dir=%v adv=%d vis=%d glyphs=", run.Runes.Offset, run.Runes.Offset+run.Runes.Count, run.Direction, run.Advance, run.VisualIndex)
						for _, g := range run.Glyphs {
							fmt.Printf("(#%d c%d x%d w%d)", g.Mask, g.ClusterIndex, g.XAdvance-g.YAdvance, g.Width)
						}
					}
					if l.truncator != nil {
						fmt.Printf(" TRUNCATOR{%d,%d} adv=%d vis=%d", l.truncator.Runes.Offset, l.truncator.Runes.Count, l.truncator.Advance, l.truncator.VisualIndex)
					}
					fmt.Println()
				}
				fmt.Printf(" truncated=%d\n", res.truncated)
			}()
		}
	}
}

func wrapBounds() map[string]string {
	q, t := wrapTierFor("quick"), wrapTierFor("thorough")
	mbn := "; mandatory-break alphabet {a,SP,LF,CR,NEL,VT,FF,LS,PS} len<=3 (thorough 4)"
	return map[string]string{"quick": q.name + "; " + q.extra.name + mbn, "thorough": t.name + "; " + t.extra.name + mbn}
}

const wrapRule = "every text over {a,SP,LF,-,U+0301,alef,1,NBSP,ZWSP} up to the tier's length x every split into <=3 runs x every LTR/RTL direction vector x every cluster composition (parts<=3) " +
	"x {all single-glyph, one 2-glyph cluster at each position} x 3 policies x 2 paragraph directions x every critical width (ceil of every interval sum of advances with/without boundary discounts, truncator-shifted); " +
	"secondary axes one at a time (and pairwise for short texts) against policy x direction x width: TruncateAfterLines {1,2} x truncator {empty,7px,1000px} x TextContinues, trim disabled, harness RunIterator, Prepare+WrapNextLine with constant/decreasing/alternating widths, " +
	"word/letter spacing {+4,+2,-2,+3/+3.02} applied with AddSpacing, vertical runs (C02). Non-trivial = >=2 lines or truncation; distinct = (policy,direction,truncation,line ends) signatures"

func init() {
	Register(&mc.Check{
		ID: "C02", Level: "exploration", Rule: wrapRule,
		Assumptions: []string{"synthetic shaped runs satisfy the shaper output contract checked by C01 (clusters contiguous, monotone, counts consistent)",
			"writes of the wrapper into the caller's glyph slices are recorded (input_mutated) but not judged by themselves"},
		Shards: wrapShardList, Run: wrapRun("C02", lawSet{c02: true}), Replay: wrapReplay(lawSet{c02: true}),
		Bounds: wrapBounds(),
	})
	Register(&mc.Check{
		ID: "C03", Level: "exploration", Rule: wrapRule + ". Break opportunities from segmenter (decided by C06), cluster starts from the generated runs",
		Assumptions: []string{"segmenter boundaries are the UAX#14/#29 ones (C06)"},
		Shards:      wrapShardList, Run: wrapRun("C03", lawSet{c03: true}), Replay: wrapReplay(lawSet{c03: true}),
		Bounds: wrapBounds(),
	})
	Register(&mc.Check{
		ID: "C04", Level: "exploration", Rule: wrapRule + ". Width laws evaluated under both readings of 'trailing at the line end' (logical end of a same-direction run / visually last glyph); a line is accepted if it fits under either, and flagged as not greedy only if the extension fits under both",
		Assumptions: []string{"measure transcribed from the property text (DESIGN.md Appendix A)"},
		Shards:      wrapShardList, Run: wrapRun("C04", lawSet{c04: true}), Replay: wrapReplay(lawSet{c04: true}),
		Bounds: wrapBounds(),
	})
}

func bools(b []bool) string {
	s := ""
	for i, v := range b {
		if v {
			s += fmt.Sprint(i) + " "
		}
	}
	return "{" + s + "}"
}
