package checks

// C08 — Visual order of runs on a line follows UAX #9 rule L2.
// Texts over a bidi-rich alphabet are itemised by the real Segmenter.Split, given synthetic 1:1
// glyph runs, wrapped at every critical width (and with a truncator), and every line's VisualIndex
// is compared with rule L2 applied to reference embedding levels (x/text core through ref/bidiref).

import (
	"encoding/json"
	"fmt"
	"sort"
	"strconv"
	"strings"

	"github.com/go-text/typesetting/di"
	"github.com/go-text/typesetting/font"
	"github.com/go-text/typesetting/shaping"
	"golang.org/x/image/math/fixed"

	"verif/mc"
	"verif/ref/bidiref"
)

var c08Alphabet = []rune{'a', 0x05D0, '1', ' ', 0x2067 /*RLI*/, 0x2066 /*LRI*/, 0x2069 /*PDI*/, 0x05D1 /*bet: second face*/, 'b' /*second face*/}

type c08case struct {
	Text     []rune `json:"text"`
	DefDir   int    `json:"defdir"` // default direction given to Split: 0 LTR (auto paragraph level), 1 RTL
	Width    int    `json:"width"`
	Trunc    int    `json:"trunc"`
	NoTrim   bool   `json:"notrim"`
	Policy   int    `json:"policy"`
	Levels   []int8 `json:"levels,omitempty"`
	RunLevel []int  `json:"line_run_levels,omitempty"`
}

type constFontmap struct{ f *font.Face }

func (c constFontmap) ResolveFace(rune) *font.Face { return c.f }

// twoFaceMap resolves 'b' and bet to a second face, so that runs of equal direction are split
type twoFaceMap struct{ a, b *font.Face }

func (c twoFaceMap) ResolveFace(r rune) *font.Face {
	if r == 'b' || r == 0x05D1 {
		return c.b
	}
	return c.a
}

// l2Order returns, for runs with the given levels in logical order, the visual position of each run
// (0 = leftmost), applying UAX #9 L2: from the highest level down to the lowest odd level, reverse
// every maximal sequence of runs at that level or higher.
func l2Order(levels []int) []int {
	n := len(levels)
	order := make([]int, n) // order[visual] = logical
	for i := range order {
		order[i] = i
	}
	hi, lowOdd := 0, 1<<30
	for _, l := range levels {
		if l > hi {
			hi = l
		}
		if l%2 == 1 && l < lowOdd {
			lowOdd = l
		}
	}
	for lvl := hi; lvl >= lowOdd; lvl-- {
		for i := 0; i < n; {
			if levels[order[i]] < lvl {
				i++
				continue
			}
			j := i
			for j < n && levels[order[j]] >= lvl {
				j++
			}
			for a, b := i, j-1; a < b; a, b = a+1, b-1 {
				order[a], order[b] = order[b], order[a]
			}
			i = j
		}
	}
	pos := make([]int, n)
	for v, l := range order {
		pos[l] = v
	}
	return pos
}

type c08env struct {
	r     *mc.Reporter
	seg   shaping.Segmenter
	lw    shaping.LineWrapper
	face  *font.Face
	face2 *font.Face
	seqs  map[string]bool // run-level sequences of whole paragraphs covered
}

func c08Glyph(r rune, cluster int, id uint32) shaping.Glyph {
	g := shaping.Glyph{ClusterIndex: cluster, RuneCount: 1, GlyphCount: 1, Mask: id, GlyphID: font.GID(id), Height: -8 << 6}
	switch r {
	case ' ':
		g.XAdvance, g.Width = 5<<6, 0
	case 0x2066, 0x2067, 0x2069:
		g.XAdvance, g.Width = 0, 0
	default:
		g.XAdvance, g.Width = 10<<6, 9<<6
	}
	return g
}

func (e *c08env) text(t []rune, defDir int, quick bool) {
	r := e.r
	n := len(t)
	pl := int8(-1)
	dir := di.DirectionLTR
	if defDir == 1 {
		pl = 1
		dir = di.DirectionRTL
	}
	levels, paraLevel := bidiref.Levels(t, pl)
	if len(levels) != n {
		return
	}
	base := c08case{Text: t, DefDir: defDir, Levels: levels}
	var inputs []shaping.Input
	if !r.Guard("C08", base, func() {
		inputs = e.seg.Split(shaping.Input{Text: t, RunStart: 0, RunEnd: n, Direction: dir, Size: 16 << 6, Face: e.face}, twoFaceMap{e.face, e.face2})
	}) {
		return
	}
	// synthetic 1:1 runs
	runs := make([]shaping.Output, len(inputs))
	id := uint32(1)
	var seq []string
	for i, in := range inputs {
		out := shaping.Output{Direction: in.Direction, Runes: shaping.Range{Offset: in.RunStart, Count: in.RunEnd - in.RunStart}, Face: in.Face, Size: 16 << 6}
		for k := in.RunStart; k < in.RunEnd; k++ {
			out.Glyphs = append(out.Glyphs, c08Glyph(t[k], k, id))
			id++
		}
		if in.Direction.Progression() == di.TowardTopLeft {
			for a, b := 0, len(out.Glyphs)-1; a < b; a, b = a+1, b-1 {
				out.Glyphs[a], out.Glyphs[b] = out.Glyphs[b], out.Glyphs[a]
			}
		}
		out.RecomputeAdvance()
		runs[i] = out
		if in.RunStart < in.RunEnd {
			seq = append(seq, strconv.Itoa(int(levels[in.RunStart])))
		}
	}
	e.seqs[fmt.Sprintf("p%d:%s", paraLevel, strings.Join(seq, ","))] = true
	pdir := di.DirectionLTR
	if paraLevel == 1 {
		pdir = di.DirectionRTL
	}
	// critical widths
	set := map[int]bool{}
	for i := 0; i < n; i++ {
		var s fixed.Int26_6
		for j := i; j < n; j++ {
			g := c08Glyph(t[j], j, 0)
			s += g.XAdvance
			set[s.Ceil()] = true
		}
	}
	set[0] = true
	var ws []int
	for w := range set {
		ws = append(ws, w)
	}
	sort.Ints(ws)
	truncator := shaping.Output{Direction: pdir, Glyphs: []shaping.Glyph{{XAdvance: 7<<6 + 24, Width: 7 << 6, Mask: truncMaskBase, GlyphCount: 1, RuneCount: 1}}}
	truncator.RecomputeAdvance()
	for _, w := range ws {
		for variant := 0; variant < 5; variant++ {
			c := base
			c.Width = w
			cfg := shaping.WrapConfig{Direction: pdir}
			switch variant {
			case 1:
				c.Trunc = 1
				cfg.TruncateAfterLines = 1
				cfg.Truncator = truncator
			case 2:
				c.Policy = 2
				cfg.BreakPolicy = shaping.Always
				c.Trunc = 2
				cfg.TruncateAfterLines = 2
				cfg.Truncator = truncator
				cfg.TextContinues = true
			case 4:
				c.Trunc = 3 // truncator shaped against the paragraph direction
				cfg.TruncateAfterLines = 1
				t2 := truncator
				t2.Glyphs = append([]shaping.Glyph(nil), truncator.Glyphs...)
				t2.Glyphs[0].Mask = truncMaskBase + 1
				if pdir == di.DirectionLTR {
					t2.Direction = di.DirectionRTL
				} else {
					t2.Direction = di.DirectionLTR
				}
				cfg.Truncator = t2
			case 3:
				c.NoTrim = true
				cfg.DisableTrailingWhitespaceTrim = true
				c.Policy = 2
				cfg.BreakPolicy = shaping.Always
			}
			if quick && variant == 3 && w != ws[len(ws)-1] {
				continue
			}
			e.wrap(&c, runs, cfg, paraLevel)
		}
	}
}

func (e *c08env) wrap(c *c08case, pristine []shaping.Output, cfg shaping.WrapConfig, paraLevel int8) {
	r := e.r
	r.Eval()
	runs := make([]shaping.Output, len(pristine))
	for i := range pristine {
		runs[i] = pristine[i]
		runs[i].Glyphs = append([]shaping.Glyph(nil), pristine[i].Glyphs...)
	}
	var lines []shaping.Line
	if !r.Guard("C08", c, func() {
		lines, _ = e.lw.WrapParagraph(cfg, c.Width, c.Text, shaping.NewSliceIterator(runs))
	}) {
		return
	}
	levels := c.Levels
	rtlPara := paraLevel == 1
	for li, line := range lines {
		m := len(line)
		lv := make([]int, m)
		uniform := true
		hasHigh := false
		for i := range line {
			run := &line[i]
			if len(run.Glyphs) > 0 && run.Glyphs[0].Mask >= truncMaskBase || (cfg.TruncateAfterLines > 0 && li == len(lines)-1 && i == m-1 && run.Runes.Offset+run.Runes.Count > len(levels)) {
				lv[i] = int(paraLevel) // truncator
				if len(run.Glyphs) > 0 && run.Glyphs[0].Mask == truncMaskBase+1 {
					lv[i]++ // shaped against the paragraph direction
				}
				continue
			}
			if cfg.TruncateAfterLines > 0 && li == len(lines)-1 && i == m-1 && len(run.Glyphs) == 1 && run.Glyphs[0].Mask == truncMaskBase {
				lv[i] = int(paraLevel)
				continue
			}
			s, e2 := run.Runes.Offset, run.Runes.Offset+run.Runes.Count
			if s < 0 || e2 > len(levels) || s >= e2 {
				uniform = false
				break
			}
			lv[i] = int(levels[s])
			for k := s; k < e2; k++ {
				if int(levels[k]) != lv[i] {
					uniform = false
				}
			}
			if lv[i] >= 2 {
				hasHigh = true
			}
		}
		if !uniform {
			r.Count("lines_with_mixed_level_runs(not judged)", 1)
			continue
		}
		// permutation
		seen := make([]bool, m)
		perm := true
		for i := range line {
			v := line[i].VisualIndex
			if v < 0 || int(v) >= m || seen[v] {
				perm = false
				break
			}
			seen[v] = true
		}
		cc := *c
		cc.RunLevel = lv
		lvKey := fmt.Sprintf("p%d:%s", paraLevel, joinInts(canonLevels(lv, int(paraLevel))))
		if !perm {
			r.Violation("C08:not-a-permutation:"+lvKey, cc, fmt.Sprintf("line %d: visual indices are not a permutation", li))
			continue
		}
		want := l2Order(lv)
		// what an ordering that only knows each run's parity relative to the paragraph produces
		// (every run at the paragraph level or one above): the mechanism of the known finding
		lvC := make([]int, m)
		for i := range lv {
			lvC[i] = int(paraLevel)
			if lv[i]%2 != int(paraLevel)%2 {
				lvC[i]++
			}
		}
		wantC := l2Order(lvC)
		ok, okC := true, true
		var got []int
		for i := range line {
			got = append(got, int(line[i].VisualIndex))
			if got[i] != want[i] {
				ok = false
			}
			if got[i] != wantC[i] {
				okC = false
			}
		}
		if !ok {
			key := "C08:order:" + lvKey
			if hasHigh && okC {
				key = "C08:order:parity-only-reordering(level>=paragraph+2)"
			}
			r.Violation(key, cc, fmt.Sprintf("line %d: run levels %v (paragraph level %d): VisualIndex=%v, rule L2 gives %v", li, lv, paraLevel, got, want))
		}
		// trimming: the glyph zeroed must be the visually last text glyph in paragraph direction (per L2)
		if !cfg.DisableTrailingWhitespaceTrim && m > 0 {
			lastOf := func(order []int) int {
				// the visually last text run in paragraph direction (the truncator, appended after trimming, is not text)
				last := -1
				for i := range order {
					if len(line[i].Glyphs) > 0 && line[i].Glyphs[0].Mask >= truncMaskBase {
						continue
					}
					if last < 0 || (!rtlPara && order[i] > order[last]) || (rtlPara && order[i] < order[last]) {
						last = i
					}
				}
				return last
			}
			last, lastC := lastOf(want), lastOf(wantC)
			fastPath := len(lines) == 1 && len(pristine) == 1
			for i := range line {
				gs := line[i].Glyphs
				for gi := range gs {
					g := &gs[gi]
					if g.Mask >= truncMaskBase || g.Mask == 0 {
						continue
					}
					ru := c.Text[g.ClusterIndex]
					orig := c08Glyph(ru, g.ClusterIndex, g.Mask)
					endPos := (!rtlPara && gi == len(gs)-1) || (rtlPara && gi == 0)
					isEnd := i == last && endPos
					isEndC := i == lastC && endPos
					explained := hasHigh && last != lastC // the parity-only order puts another run at the line end
					if isEnd && orig.Width == 0 && g.XAdvance != 0 && !fastPath {
						key := "C08:trim-missed:" + lvKey
						if explained {
							key = "C08:trim:parity-only-reordering(level>=paragraph+2)"
						}
						r.Violation(key, cc, fmt.Sprintf("line %d: the visually last glyph in paragraph direction (rune %d) is whitespace but kept its advance", li, g.ClusterIndex))
					}
					if !isEnd && g.XAdvance != orig.XAdvance {
						key := "C08:trim-wrong-glyph:" + lvKey
						if explained && isEndC {
							key = "C08:trim:parity-only-reordering(level>=paragraph+2)"
						}
						r.Violation(key, cc, fmt.Sprintf("line %d: glyph of rune %d had its advance changed but is not the visually last glyph in paragraph direction", li, g.ClusterIndex))
					}
				}
			}
		}
		r.OutcomeStr(lvKey, m >= 2)
		if m >= 3 && r.WantSample() {
			r.Sample(cc)
		}
	}
}

// canonLevels compresses a level sequence to the smallest values that keep the relative order
// and the parity of every level (rule L2 only depends on those).
func canonLevels(v []int, paraLevel int) []int {
	d := append([]int(nil), v...)
	sort.Ints(d)
	m := map[int]int{paraLevel: paraLevel}
	prev := -1
	for _, l := range d {
		if nv, ok := m[l]; ok {
			if nv > prev {
				prev = nv
			}
			continue
		}
		nv := prev + 1
		if nv < paraLevel {
			nv = paraLevel
		}
		if nv%2 != l%2 {
			nv++
		}
		m[l] = nv
		prev = nv
	}
	out := make([]int, len(v))
	for i, l := range v {
		out[i] = m[l]
	}
	return out
}

func joinInts(v []int) string {
	s := make([]string, len(v))
	for i, x := range v {
		s[i] = strconv.Itoa(x)
	}
	return strings.Join(s, ",")
}

func c08MaxLen(tier string) int {
	if tier == "thorough" {
		return 6
	}
	return 5
}

func c08Shards(tier string) []string {
	var s []string
	for i := 0; i < wrapShards; i++ {
		s = append(s, "real:"+strconv.Itoa(i))
	}
	for i := 0; i < wrapShards; i++ {
		s = append(s, "synth:"+strconv.Itoa(i))
	}
	return s
}

func c08Run(tier, shard string, r *mc.Reporter) {
	if strings.HasPrefix(shard, "synth:") {
		wrapRun("C08", lawSet{c08: true})(tier, strings.TrimPrefix(shard, "synth:"), r)
		return
	}
	sh, _ := strconv.Atoi(strings.TrimPrefix(shard, "real:"))
	e := &c08env{r: r, face: &font.Face{}, face2: &font.Face{}, seqs: map[string]bool{}}
	total := 0
	for l := 1; l <= c08MaxLen(tier); l++ {
		p := 1
		for k := 0; k < l; k++ {
			p *= len(c08Alphabet)
		}
		total += p
	}
	block := (total + wrapShards - 1) / wrapShards
	enumTexts(c08Alphabet, 1, c08MaxLen(tier), func(idx int, t []rune) bool {
		if idx/block < sh {
			return true
		}
		if idx/block > sh {
			return false
		}
		if r.Expired() {
			r.Incomplete(fmt.Sprintf("deadline at text #%d", idx))
			return false
		}
		e.text(t, 0, tier == "quick")
		e.text(t, 1, tier == "quick")
		return true
	})
	for s := range e.seqs {
		r.OutcomeStr("paragraph-seq:"+s, true)
	}
	r.Count("paragraph_level_sequences_seen_in_shard(sum over shards, not distinct)", int64(len(e.seqs)))
}

func c08Replay(raw json.RawMessage, r *mc.Reporter) {
	if strings.Contains(string(raw), `"runs"`) {
		wrapReplay(lawSet{c08: true})(raw, r)
		return
	}
	var c c08case
	if json.Unmarshal(raw, &c) != nil {
		return
	}
	e := &c08env{r: r, face: &font.Face{}, face2: &font.Face{}, seqs: map[string]bool{}}
	e.text(c.Text, c.DefDir, false)
}

func init() {
	Register(&mc.Check{
		ID: "C08", Level: "exploration",
		Rule: "(real) every text over {a, alef, 1, SP, RLI, LRI, PDI, bet(face 2), b(face 2)} up to the tier's length x default direction {LTR(auto paragraph level), RTL} -> real Segmenter.Split -> synthetic 1:1 glyph runs -> WrapParagraph at every critical width x {plain, truncator on line 1, policy Always + truncator on line 2 + TextContinues, trim disabled, truncator shaped against the paragraph}; " +
			"every line's VisualIndex vs UAX#9 L2 on reference levels (x/text core); trimming must hit the visually last glyph in paragraph direction. (synth) the C02 enumeration of synthetic runs with arbitrary direction vectors, judged against L2 on the two-level realisation of the vector. Non-trivial = line with >= 2 runs; distinct = (paragraph level, run level sequence) of lines and paragraphs",
		Assumptions: []string{"reference levels come from the unexported core of golang.org/x/text/unicode/bidi (port of the Unicode reference implementation) through go:linkname",
			"the wrapper is given the resolved paragraph direction as WrapConfig.Direction", "lines holding a run with mixed embedding levels of equal parity are counted, not judged"},
		Shards: c08Shards, Run: c08Run, Replay: c08Replay,
		Bounds: map[string]string{"quick": "real: texts of length <= 5 over 9 symbols; synth: " + wrapBounds()["quick"], "thorough": "real: texts of length <= 6 over 9 symbols; synth: " + wrapBounds()["thorough"]},
	})
}
