// Package checks holds one file (or a few) per property.
package checks

import "verif/mc"

var All = map[string]*mc.Check{}

func Register(c *mc.Check) { All[c.ID] = c }
