// Package checks holds one file (or a few) per property.
package checks

import "verif/mc"

var All = map[string]*mc.Check{}

func Register(c *mc.Check) { All[c.ID] = c }

// ExtraCommands are sub-commands of the check binary other than running a check
// (for example the free-running body of C17, executed from a -race build).
var ExtraCommands = map[string]func(args []string){}
