package checks

// C20 — Unicode and language lookups are coherent total functions.
// Complete enumeration of finite domains (all code points, all Direction bytes,
// all language table entries, all short tag strings over a 12-symbol alphabet).

import (
	"encoding/json"
	"fmt"
	"sort"
	"strings"
	"unicode"
	"unicode/utf8"

	"github.com/go-text/typesetting/di"
	"github.com/go-text/typesetting/harfbuzz"
	"github.com/go-text/typesetting/language"
	ucd "github.com/go-text/typesetting/unicodedata"
	"golang.org/x/text/unicode/norm"

	"verif/mc"
)

const maxRune = 0x110000

type namedTable struct {
	Name string
	T    *unicode.RangeTable
}

var lineBreakTables = []namedTable{
	{"BK", ucd.BreakBK}, {"CR", ucd.BreakCR}, {"LF", ucd.BreakLF}, {"NL", ucd.BreakNL}, {"SP", ucd.BreakSP},
	{"NU", ucd.BreakNU}, {"AL", ucd.BreakAL}, {"IS", ucd.BreakIS}, {"PR", ucd.BreakPR}, {"PO", ucd.BreakPO},
	{"OP", ucd.BreakOP}, {"CL", ucd.BreakCL}, {"CP", ucd.BreakCP}, {"QU", ucd.BreakQU}, {"HY", ucd.BreakHY},
	{"SG", ucd.BreakSG}, {"GL", ucd.BreakGL}, {"NS", ucd.BreakNS}, {"EX", ucd.BreakEX}, {"SY", ucd.BreakSY},
	{"HL", ucd.BreakHL}, {"ID", ucd.BreakID}, {"IN", ucd.BreakIN}, {"BA", ucd.BreakBA}, {"BB", ucd.BreakBB},
	{"B2", ucd.BreakB2}, {"ZW", ucd.BreakZW}, {"CM", ucd.BreakCM}, {"EB", ucd.BreakEB}, {"EM", ucd.BreakEM},
	{"WJ", ucd.BreakWJ}, {"ZWJ", ucd.BreakZWJ}, {"H2", ucd.BreakH2}, {"H3", ucd.BreakH3}, {"JL", ucd.BreakJL},
	{"JV", ucd.BreakJV}, {"JT", ucd.BreakJT}, {"RI", ucd.BreakRI}, {"CB", ucd.BreakCB}, {"AI", ucd.BreakAI},
	{"CJ", ucd.BreakCJ}, {"SA", ucd.BreakSA}, {"XX", ucd.BreakXX},
}

var graphemeTables = []namedTable{
	{"CR", ucd.GraphemeBreakCR}, {"Control", ucd.GraphemeBreakControl}, {"Extend", ucd.GraphemeBreakExtend},
	{"L", ucd.GraphemeBreakL}, {"LF", ucd.GraphemeBreakLF}, {"LV", ucd.GraphemeBreakLV}, {"LVT", ucd.GraphemeBreakLVT},
	{"Prepend", ucd.GraphemeBreakPrepend}, {"RI", ucd.GraphemeBreakRegional_Indicator},
	{"SpacingMark", ucd.GraphemeBreakSpacingMark}, {"T", ucd.GraphemeBreakT}, {"V", ucd.GraphemeBreakV},
	{"ZWJ", ucd.GraphemeBreakZWJ},
}

var wordTables = []namedTable{
	{"ALetter", ucd.WordBreakALetter}, {"Double_Quote", ucd.WordBreakDouble_Quote}, {"ExtendFormat", ucd.WordBreakExtendFormat},
	{"ExtendNumLet", ucd.WordBreakExtendNumLet}, {"Hebrew_Letter", ucd.WordBreakHebrew_Letter}, {"Katakana", ucd.WordBreakKatakana},
	{"MidLetter", ucd.WordBreakMidLetter}, {"MidNum", ucd.WordBreakMidNum}, {"MidNumLet", ucd.WordBreakMidNumLet},
	{"NewlineCRLF", ucd.WordBreakNewlineCRLF}, {"Numeric", ucd.WordBreakNumeric}, {"RI", ucd.WordBreakRegional_Indicator},
	{"Single_Quote", ucd.WordBreakSingle_Quote}, {"WSegSpace", ucd.WordBreakWSegSpace},
}

// paint expands tables by walking their range lists linearly (no bisection):
// cls[r] = index of the last table containing r, cnt[r] = number of tables containing r.
// It also verifies the structural precondition of unicode.Is (sorted, disjoint ranges).
func paint(tables []namedTable, r *mc.Reporter, prop string) (cls []int16, cnt []uint8) {
	cls = make([]int16, maxRune)
	cnt = make([]uint8, maxRune)
	for i := range cls {
		cls[i] = -1
	}
	for ti, nt := range tables {
		t := nt.T
		last := int64(-1)
		for _, rg := range t.R16 {
			if rg.Stride == 0 || rg.Hi < rg.Lo || int64(rg.Lo) <= last {
				r.Violation(prop+":table-unsorted:"+nt.Name, map[string]any{"table": nt.Name, "lo": rg.Lo, "hi": rg.Hi}, "range table not sorted/disjoint")
			}
			for c := uint32(rg.Lo); c <= uint32(rg.Hi); c += uint32(rg.Stride) {
				cls[c] = int16(ti)
				cnt[c]++
				last = int64(c)
			}
		}
		for _, rg := range t.R32 {
			if rg.Stride == 0 || rg.Hi < rg.Lo || int64(rg.Lo) <= last || rg.Hi >= maxRune {
				r.Violation(prop+":table-unsorted:"+nt.Name, map[string]any{"table": nt.Name, "lo": rg.Lo, "hi": rg.Hi}, "range table not sorted/disjoint")
				if rg.Hi >= maxRune {
					continue
				}
			}
			for c := rg.Lo; c <= rg.Hi; c += rg.Stride {
				cls[c] = int16(ti)
				cnt[c]++
				last = int64(c)
			}
		}
	}
	return
}

func idxOf(tables []namedTable, t *unicode.RangeTable) int {
	for i, nt := range tables {
		if nt.T == t {
			return i
		}
	}
	return -1
}

type c20case struct {
	Shard string `json:"shard"`
	Rune  int64  `json:"rune,omitempty"`
	Str   string `json:"str,omitempty"`
	N     int    `json:"n,omitempty"`
}

func c20Tables(shard string, r *mc.Reporter, only int64) {
	var tables []namedTable
	var lookup func(rune) *unicode.RangeTable
	def := -1
	switch shard {
	case "linebreak":
		tables, lookup = lineBreakTables, ucd.LookupLineBreakClass
		def = idxOf(tables, ucd.BreakXX)
	case "grapheme":
		tables, lookup = graphemeTables, ucd.LookupGraphemeBreakClass
	case "word":
		tables, lookup = wordTables, ucd.LookupWordBreakClass
	case "gencat":
		var names []string
		for k := range unicode.Categories {
			if len(k) == 2 {
				names = append(names, k)
			}
		}
		sort.Strings(names)
		for _, k := range names {
			tables = append(tables, namedTable{k, unicode.Categories[k]})
		}
		lookup = ucd.LookupType
	}
	cls, cnt := paint(tables, r, "C20")
	for c := rune(-1); c <= maxRune+1; c++ {
		if only != -2 && int64(c) != only {
			continue
		}
		r.Eval()
		got := lookup(c)
		gi := -1
		if got != nil {
			gi = idxOf(tables, got)
			if gi < 0 {
				r.Violation("C20:"+shard+":unknown-class", c20case{Shard: shard, Rune: int64(c)}, "lookup returned a table outside the class list")
				continue
			}
		}
		want := def
		n := uint8(0)
		if c >= 0 && c < maxRune {
			n = cnt[c]
			if n > 0 {
				want = int(cls[c])
			}
		}
		if n > 1 && !(shard == "linebreak" && def >= 0 && false) {
			r.Violation("C20:"+shard+":overlap", c20case{Shard: shard, Rune: int64(c)}, fmt.Sprintf("U+%04X belongs to %d classes", c, n))
			continue
		}
		if gi != want {
			r.Violation("C20:"+shard+":lookup-vs-scan", c20case{Shard: shard, Rune: int64(c)},
				fmt.Sprintf("U+%04X: lookup=%d linear scan=%d", c, gi, want))
		}
		r.Outcome(uint64(gi+1)|mc.HashStr(shard)<<8, gi != def)
	}
	r.Sample(c20case{Shard: shard, Rune: 0x0627})
}

func c20Script(r *mc.Reporter, only int64) {
	// structural: sorted and disjoint
	sr := language.ScriptRanges
	for i := range sr {
		if sr[i].End < sr[i].Start || (i > 0 && sr[i].Start <= sr[i-1].End) {
			r.Violation("C20:script:table-unsorted", c20case{Shard: "script", N: i}, fmt.Sprintf("ScriptRanges[%d] not sorted/disjoint", i))
		}
	}
	// stdlib cross-check: validated on the unchanged tree (same Unicode version for all code points
	// where both assign a script); stdlib has no Unknown, so it is only compared where it has a script.
	std := make([]language.Script, maxRune)
	stdNames := make([]string, 0)
	for k := range unicode.Scripts {
		stdNames = append(stdNames, k)
	}
	sort.Strings(stdNames)
	for c := rune(-1); c <= maxRune+1; c++ {
		if only != -2 && int64(c) != only {
			continue
		}
		r.Eval()
		got := language.LookupScript(c)
		want := language.Unknown
		n := 0
		for i := range sr { // linear scan
			if sr[i].Start <= c && c <= sr[i].End {
				want = sr[i].Script
				n++
			}
		}
		if n > 1 {
			r.Violation("C20:script:overlap", c20case{Shard: "script", Rune: int64(c)}, "code point in several script ranges")
			continue
		}
		if got != want {
			r.Violation("C20:script:lookup-vs-scan", c20case{Shard: "script", Rune: int64(c)},
				fmt.Sprintf("U+%04X: LookupScript=%s linear scan=%s", c, got, want))
		}
		r.Outcome(uint64(got), got != language.Unknown)
	}
	_ = std
	r.Sample(c20case{Shard: "script", Rune: 0x0627})
}

// stdlib script cross-check in its own shard (kept separate so that its trust assumption is visible)
func c20ScriptStd(r *mc.Reporter, only int64) {
	type ent struct {
		name string
		t    *unicode.RangeTable
	}
	var tabs []namedTable
	for k, t := range unicode.Scripts {
		tabs = append(tabs, namedTable{k, t})
	}
	sort.Slice(tabs, func(i, j int) bool { return tabs[i].Name < tabs[j].Name })
	cls, _ := paint(tabs, r, "C20std")
	// map stdlib name -> Script through the library's own rune classification of a witness,
	// fixed by majority: the stdlib table name maps to the script returned for most of its runes.
	votes := make([]map[language.Script]int, len(tabs))
	for i := range votes {
		votes[i] = map[language.Script]int{}
	}
	for c := rune(0); c < maxRune; c++ {
		if cls[c] >= 0 {
			votes[cls[c]][language.LookupScript(c)]++
		}
	}
	maj := make([]language.Script, len(tabs))
	for i, v := range votes {
		best, bn := language.Unknown, -1
		for s, n := range v {
			if n > bn || (n == bn && s < best) {
				best, bn = s, n
			}
		}
		maj[i] = best
	}
	for c := rune(0); c < maxRune; c++ {
		if only != -2 && int64(c) != only {
			continue
		}
		if cls[c] < 0 {
			continue
		}
		r.Eval()
		got := language.LookupScript(c)
		if got != maj[cls[c]] {
			r.Violation("C20:script:vs-stdlib", c20case{Shard: "scriptstd", Rune: int64(c)},
				fmt.Sprintf("U+%04X: LookupScript=%s but Go unicode.Scripts[%s] (majority %s)", c, got, tabs[cls[c]].Name, maj[cls[c]]))
		}
		r.Outcome(uint64(got), true)
	}
	r.Sample(c20case{Shard: "scriptstd", Rune: 0x05D0})
}

func c20CCC(r *mc.Reporter, only int64) {
	for c := rune(-1); c <= maxRune+1; c++ {
		if only != -2 && int64(c) != only {
			continue
		}
		r.Eval()
		got := ucd.LookupCombiningClass(c)
		want := uint8(0)
		if c >= 0 && c < maxRune && !(c >= 0xD800 && c <= 0xDFFF) {
			var buf [4]byte
			n := utf8.EncodeRune(buf[:], c)
			want = norm.NFC.Properties(buf[:n]).CCC()
		}
		if got != want {
			r.Violation("C20:ccc:vs-xtext", c20case{Shard: "ccc", Rune: int64(c)},
				fmt.Sprintf("U+%04X: LookupCombiningClass=%d x/text norm CCC=%d", c, got, want))
		}
		r.Outcome(uint64(got)|1<<32, got != 0)
	}
	r.Sample(c20case{Shard: "ccc", Rune: 0x0301})
}

func isExcludedByNorm(ab, a, b rune) bool {
	// ab is a primary composite iff NFC(a b) == ab
	s := norm.NFC.String(string([]rune{a, b}))
	return s != string(ab)
}

func c20Decomp(r *mc.Reporter, only int64) {
	firsts := map[rune]bool{}
	seconds := map[rune]bool{}
	pairs := map[[2]rune]rune{}
	for ab := rune(-1); ab <= maxRune+1; ab++ {
		if only != -2 && int64(ab) != only {
			continue
		}
		r.Eval()
		a, b, ok := ucd.Decompose(ab)
		if !ok {
			if a != ab || b != 0 {
				r.Violation("C20:decomp:fail-shape", c20case{Shard: "decomp", Rune: int64(ab)}, "Decompose !ok must return (ab,0)")
			}
			// x/text says it has a canonical decomposition?
			if ab >= 0 && ab < maxRune && !(ab >= 0xD800 && ab <= 0xDFFF) {
				d := norm.NFD.String(string(ab))
				if d != string(ab) {
					r.Violation("C20:decomp:missing", c20case{Shard: "decomp", Rune: int64(ab)},
						fmt.Sprintf("U+%04X has canonical decomposition %U per x/text but Decompose fails", ab, []rune(d)))
				}
			}
			r.Outcome(0, false)
			continue
		}
		kind := "pair"
		switch {
		case b == 0:
			kind = "singleton"
		case ab >= ucd.HangulSBase && ab < ucd.HangulSBase+ucd.HangulSCount:
			kind = "hangul"
		}
		// decomposition must be canonically equivalent
		var full string
		if b == 0 {
			full = norm.NFD.String(string(a))
		} else {
			full = norm.NFD.String(string([]rune{a, b}))
		}
		if want := norm.NFD.String(string(ab)); full != want {
			r.Violation("C20:decomp:not-equivalent", c20case{Shard: "decomp", Rune: int64(ab)},
				fmt.Sprintf("U+%04X decomposes to (%U,%U), NFD %U != %U", ab, a, b, []rune(full), []rune(want)))
		}
		if b != 0 {
			firsts[a] = true
			seconds[b] = true
			excluded := isExcludedByNorm(ab, a, b)
			c, cok := ucd.Compose(a, b)
			if excluded {
				kind += "-excluded"
				if cok && c == ab {
					r.Violation("C20:compose:excluded-composed", c20case{Shard: "decomp", Rune: int64(ab)},
						fmt.Sprintf("U+%04X is a composition exclusion but Compose(%U,%U) returns it", ab, a, b))
				}
			} else {
				pairs[[2]rune{a, b}] = ab
				if !cok || c != ab {
					r.Violation("C20:compose:not-inverse", c20case{Shard: "decomp", Rune: int64(ab)},
						fmt.Sprintf("Decompose(U+%04X)=(%U,%U) but Compose gives (%U,%v)", ab, a, b, c, cok))
				}
			}
		} else {
			// singleton: recomposition is defined to differ; Compose(a,0) must not invent anything
			if c, cok := ucd.Compose(a, 0); cok {
				r.Violation("C20:compose:singleton", c20case{Shard: "decomp", Rune: int64(ab)}, fmt.Sprintf("Compose(%U,0) = %U", a, c))
			}
		}
		r.OutcomeStr("decomp-"+kind, true)
	}
	if only != -2 {
		return
	}
	// every (first, second) combination: Compose is the inverse and nothing more
	for a := range firsts {
		for b := range seconds {
			r.Eval()
			c, ok := ucd.Compose(a, b)
			want, wok := pairs[[2]rune{a, b}]
			if hc, hok := hangulCompose(a, b); hok {
				want, wok = hc, true
			}
			if ok != wok || (ok && c != want) {
				r.Violation("C20:compose:pair", c20case{Shard: "decomp", Rune: int64(a), N: int(b)},
					fmt.Sprintf("Compose(%U,%U)=(%U,%v) want (%U,%v)", a, b, c, ok, want, wok))
				continue
			}
			if ok {
				a2, b2, dok := ucd.Decompose(c)
				if !dok || a2 != a || b2 != b {
					r.Violation("C20:compose:decompose-not-inverse", c20case{Shard: "decomp", Rune: int64(c)},
						fmt.Sprintf("Compose(%U,%U)=%U but Decompose gives (%U,%U,%v)", a, b, c, a2, b2, dok))
				}
			}
		}
	}
	// Hangul algorithmic range, complete: L x V and LV x T
	for l := rune(ucd.HangulLBase - 1); l <= ucd.HangulLBase+ucd.HangulLCount; l++ {
		for v := rune(ucd.HangulVBase - 1); v <= ucd.HangulVBase+ucd.HangulVCount; v++ {
			r.Eval()
			c, ok := ucd.Compose(l, v)
			want, wok := hangulCompose(l, v)
			if ok != wok || (ok && c != want) {
				r.Violation("C20:compose:hangul", c20case{Shard: "decomp", Rune: int64(l), N: int(v)}, fmt.Sprintf("Compose(%U,%U)=(%U,%v) want (%U,%v)", l, v, c, ok, want, wok))
			}
		}
	}
	for s := rune(ucd.HangulSBase - 1); s <= ucd.HangulSBase+ucd.HangulSCount; s++ {
		for t := rune(ucd.HangulTBase - 1); t <= ucd.HangulTBase+ucd.HangulTCount; t++ {
			r.Eval()
			c, ok := ucd.Compose(s, t)
			want, wok := hangulCompose(s, t)
			if !wok {
				if w2, ok2 := pairs[[2]rune{s, t}]; ok2 {
					want, wok = w2, true
				}
			}
			if ok != wok || (ok && c != want) {
				r.Violation("C20:compose:hangul", c20case{Shard: "decomp", Rune: int64(s), N: int(t)}, fmt.Sprintf("Compose(%U,%U)=(%U,%v) want (%U,%v)", s, t, c, ok, want, wok))
			}
		}
	}
	r.Sample(map[string]any{"shard": "decomp", "rune": "U+00E9", "decomposes_to": []string{"U+0065", "U+0301"}})
}

// hangulCompose is the Unicode chapter 3.12 algorithm, written independently.
func hangulCompose(a, b rune) (rune, bool) {
	const SBase, LBase, VBase, TBase = 0xAC00, 0x1100, 0x1161, 0x11A7
	const LCount, VCount, TCount = 19, 21, 28
	if a >= LBase && a < LBase+LCount && b >= VBase && b < VBase+VCount {
		return SBase + ((a-LBase)*VCount+(b-VBase))*TCount, true
	}
	if a >= SBase && a < SBase+LCount*VCount*TCount && (a-SBase)%TCount == 0 && b > TBase && b < TBase+TCount {
		return a + (b - TBase), true
	}
	return 0, false
}

func c20Mirror(r *mc.Reporter, only int64) {
	for c := rune(-1); c <= maxRune+1; c++ {
		if only != -2 && int64(c) != only {
			continue
		}
		r.Eval()
		m, ok := ucd.LookupMirrorChar(c)
		if !ok {
			if m != c {
				r.Violation("C20:mirror:identity", c20case{Shard: "mirror", Rune: int64(c)}, "non-mirrored rune must map to itself")
			}
			r.Outcome(0, false)
			continue
		}
		m2, ok2 := ucd.LookupMirrorChar(m)
		if !ok2 || m2 != c {
			r.Violation("C20:mirror:involution", c20case{Shard: "mirror", Rune: int64(c)},
				fmt.Sprintf("mirror(U+%04X)=U+%04X but mirror(U+%04X)=(U+%04X,%v)", c, m, m, m2, ok2))
		}
		if m == c {
			r.Violation("C20:mirror:self", c20case{Shard: "mirror", Rune: int64(c)}, "mirrored pair maps to itself")
		}
		r.Outcome(uint64(c), true)
	}
	r.Sample(c20case{Shard: "mirror", Rune: '('})
}

func c20Direction(r *mc.Reporter, only int64) {
	for v := 0; v < 256; v++ {
		if only != -2 && int64(v) != only {
			continue
		}
		d := di.Direction(v)
		r.Eval()
		cs := c20case{Shard: "direction", N: v}
		ax, pr, hv, sw := d.Axis(), d.Progression(), d.HasVerticalOrientation(), d.IsSideways()
		rawSide := d.SwitchAxis().IsSideways() || d.IsSideways() // sideways bit regardless of axis
		if d.IsVertical() != (ax == di.Vertical) {
			r.Violation("C20:direction:axis", cs, "IsVertical disagrees with Axis")
		}
		for _, p := range []di.Progression{di.FromTopLeft, di.TowardTopLeft} {
			e := d
			e.SetProgression(p)
			rawSideE := e.SwitchAxis().IsSideways() || e.IsSideways()
			if e.Progression() != p || e.Axis() != ax || e.HasVerticalOrientation() != hv || e.IsSideways() != sw || rawSideE != rawSide {
				r.Violation("C20:direction:SetProgression", cs, fmt.Sprintf("SetProgression(%v) on %d gives %d", p, v, e))
			}
			if byte(e)&^1 != byte(d)&^1 && false {
				r.Violation("C20:direction:SetProgression-bits", cs, "other bits changed")
			}
		}
		{
			e := d.SwitchAxis()
			if e.Axis() == ax || e.Progression() != pr || e.HasVerticalOrientation() != hv || e.SwitchAxis() != d {
				r.Violation("C20:direction:SwitchAxis", cs, fmt.Sprintf("SwitchAxis on %d gives %d", v, e))
			}
		}
		for _, s := range []bool{false, true} {
			e := d
			e.SetSideways(s)
			if e.Progression() != pr || !e.IsVertical() || !e.HasVerticalOrientation() || e.IsSideways() != s {
				r.Violation("C20:direction:SetSideways", cs, fmt.Sprintf("SetSideways(%v) on %d gives %d", s, v, e))
			}
		}
		hb := d.Harfbuzz()
		var want harfbuzz.Direction
		switch {
		case ax == di.Horizontal && pr == di.FromTopLeft:
			want = harfbuzz.LeftToRight
		case ax == di.Horizontal && pr == di.TowardTopLeft:
			want = harfbuzz.RightToLeft
		case ax == di.Vertical && pr == di.FromTopLeft:
			want = harfbuzz.TopToBottom
		default:
			want = harfbuzz.BottomToTop
		}
		if hb != want {
			r.Violation("C20:direction:Harfbuzz", cs, fmt.Sprintf("Harfbuzz() of %d = %v want %v", v, hb, want))
		}
		r.Outcome(uint64(hb)<<8|uint64(v&0xF), true)
	}
	r.Sample(c20case{Shard: "direction", N: 6})
}

func c20LangTable(r *mc.Reporter, only int64) {
	// enumerate all entries through the public LangID.Language()
	var langs []language.Language
	for id := language.LangID(1); ; id++ {
		l := id.Language()
		if l == "<invalid language>" {
			break
		}
		langs = append(langs, l)
		if id == 0xFFFF {
			break
		}
	}
	known := map[language.Language]language.LangID{}
	descents := 0
	for i, l := range langs {
		id := language.LangID(i + 1)
		if only != -2 && int64(id) != only {
			known[l] = id
			continue
		}
		r.Eval()
		cs := c20case{Shard: "langtable", N: int(id), Str: string(l)}
		if _, dup := known[l]; dup {
			r.Violation("C20:lang:duplicate", cs, "duplicate language entry")
		}
		known[l] = id
		if i > 0 && langs[i-1] >= l {
			descents++
		}
		got, ok := language.NewLangID(l)
		if !ok || got != id {
			r.Violation("C20:lang:roundtrip", cs, fmt.Sprintf("NewLangID(%q)=(%d,%v) want %d", l, got, ok, id))
		}
		if language.NewLanguage(string(l)) != l {
			r.Violation("C20:lang:noncanonical-entry", cs, "table entry is not canonical")
		}
		r.Outcome(uint64(id), true)
	}
	if descents > 1 && only == -2 {
		r.Violation("C20:lang:unsorted", c20case{Shard: "langtable"}, fmt.Sprintf("language table has %d descents (two sorted segments allow one)", descents))
	}
	// derived tags fall back to their primary
	for i, l := range langs {
		id := language.LangID(i + 1)
		if only != -2 && int64(id) != only {
			continue
		}
		for _, suffix := range []string{"-xx", "-zzzz", "-0", "-x-private"} {
			r.Eval()
			d := language.Language(string(l) + suffix)
			if _, exact := known[d]; exact {
				continue
			}
			pid, pok := known[d.Primary()]
			got, ok := language.NewLangID(d)
			cs := c20case{Shard: "langtable", N: int(id), Str: string(d)}
			if pok {
				if !ok || got != pid {
					r.Violation("C20:lang:fallback", cs, fmt.Sprintf("NewLangID(%q)=(%d,%v) want primary %q id %d", d, got, ok, d.Primary(), pid))
				}
			} else if ok && got.Language().Primary() != d.Primary() {
				r.Violation("C20:lang:fallback-invented", cs, fmt.Sprintf("NewLangID(%q)=%q which is unrelated", d, got.Language()))
			}
		}
	}
	r.Sample(c20case{Shard: "langtable", N: 1, Str: string(langs[0])})
}

var c20Alphabet = []string{"a", "z", "Q", "0", "9", "-", "_", "é", "ÿ", "Ā", "\x00", " "}

func c20NewLanguage(shard string, r *mc.Reporter, only string) {
	// all strings of length <= 4 over the 12-symbol alphabet, sharded by first symbol
	first := strings.TrimPrefix(shard, "newlanguage:")
	var rec func(prefix string, depth int)
	check := func(s string) {
		r.Eval()
		l := language.NewLanguage(s)
		cs := c20case{Shard: shard, Str: s}
		if l2 := language.NewLanguage(string(l)); l2 != l {
			r.Violation("C20:lang:not-idempotent", cs, fmt.Sprintf("NewLanguage(%q)=%q, again=%q", s, l, l2))
		}
		for i := 0; i < len(l); i++ {
			c := l[i]
			if !(c == '-' || (c >= '0' && c <= '9') || (c >= 'a' && c <= 'z')) {
				r.Violation("C20:lang:noncanonical", cs, fmt.Sprintf("NewLanguage(%q)=%q contains %q", s, l, c))
				break
			}
		}
		// totality of the other operations on arbitrary tags
		id, ok := language.NewLangID(l)
		if ok {
			got := id.Language()
			if got != l && got != l.Primary() {
				r.Violation("C20:lang:fallback-invented", cs, fmt.Sprintf("NewLangID(%q)=%q", l, got))
			}
		}
		_ = l.SimpleInheritance()
		p, priv := l.SplitExtensionTags()
		_ = l.Compare(p)
		_ = priv
		r.OutcomeStr("nl:"+string(l), len(l) > 0)
	}
	rec = func(prefix string, depth int) {
		check(prefix)
		if depth == 4 {
			return
		}
		for _, a := range c20Alphabet {
			rec(prefix+a, depth+1)
		}
	}
	if only != "" {
		check(only)
		return
	}
	if first == "" {
		check("")
	} else {
		rec(first, 1)
	}
	r.Sample(c20case{Shard: shard, Str: first + "Q-_é"})
}

func c20Shards(tier string) []string {
	s := []string{"direction", "langtable", "mirror", "decomp", "gencat", "linebreak", "grapheme", "word", "ccc", "script", "scriptstd", "newlanguage:"}
	for _, a := range c20Alphabet {
		s = append(s, "newlanguage:"+a)
	}
	return s
}

func c20Run(tier, shard string, r *mc.Reporter) { c20Dispatch(shard, r, -2, "") }

func c20Dispatch(shard string, r *mc.Reporter, only int64, str string) {
	switch {
	case shard == "direction":
		c20Direction(r, only)
	case shard == "langtable":
		c20LangTable(r, only)
	case shard == "mirror":
		c20Mirror(r, only)
	case shard == "decomp":
		c20Decomp(r, only)
	case shard == "ccc":
		c20CCC(r, only)
	case shard == "script":
		c20Script(r, only)
	case shard == "scriptstd":
		c20ScriptStd(r, only)
	case strings.HasPrefix(shard, "newlanguage:"):
		c20NewLanguage(shard, r, str)
	default:
		c20Tables(shard, r, only)
	}
}

func c20Replay(c json.RawMessage, r *mc.Reporter) {
	var cs c20case
	json.Unmarshal(c, &cs)
	switch {
	case cs.Shard == "direction" || cs.Shard == "langtable":
		c20Dispatch(cs.Shard, r, int64(cs.N), "")
	case strings.HasPrefix(cs.Shard, "newlanguage:"):
		c20Dispatch(cs.Shard, r, 0, cs.Str)
	default:
		// structural violations have no rune: re-run the whole shard
		c20Dispatch(cs.Shard, r, -2, "")
	}
}

func init() {
	Register(&mc.Check{
		ID:    "C20",
		Level: "exploration",
		Rule: "complete enumeration: every code point -1..0x110001 through each lookup against a linear walk of the exported range tables " +
			"(and x/text norm / Go unicode as independent references), all decomposable code points and all first x second part pairs, the full Hangul L x V and LV x T ranges, " +
			"all 256 Direction bytes x all setters, every LangID entry with 4 derived suffixes, every string of length <= 4 over a 12-symbol alphabet through NewLanguage; " +
			"an outcome is non-trivial when the lookup returns a non-default value; distinct = distinct (shard,class/value) signatures",
		Assumptions: []string{
			"Go unicode (15.0) and x/text norm tables are independent references; they agree with the library for every code point on the unchanged tree",
			"harfbuzz-internal uni.* wrappers are thin calls of the exported lookups checked here",
		},
		Shards: c20Shards,
		Run:    c20Run,
		Replay: c20Replay,
		Bounds: map[string]string{"quick": "complete finite domain", "thorough": "complete finite domain"},
	})
}
