package checks

// Laws of DESIGN.md Appendix A for the wrapper family, evaluated on one wrapped case.

import (
	"fmt"

	"github.com/go-text/typesetting/di"
	"github.com/go-text/typesetting/shaping"
	"golang.org/x/image/math/fixed"

	"verif/mc"
)

type wLine struct {
	runs      []shaping.Output // text runs (truncator removed)
	truncator *shaping.Output
	start     int
	end       int
	width     int
	nextLine  int
	hasNext   bool
}

type wResult struct {
	lines         []wLine
	truncated     int
	inputRuns     []shaping.Output // the (possibly mutated) runs handed to the wrapper
	extraNil      bool             // WrapNextLine after done returned nil lines as documented
	nilBeforeDone int              // WrapNextLine returned no line although the paragraph was not finished
}

func (p *mPara) widthAt(i int) int {
	w := p.c.Widths
	if i < len(w) {
		return w[i]
	}
	return w[len(w)-1]
}

func isTruncatorRun(o *shaping.Output) bool {
	if len(o.Glyphs) == 0 {
		return true
	}
	return o.Glyphs[0].Mask >= truncMaskBase
}

var wrapSharedIter shaping.RunIterator
var wrapCallerText = map[int][]rune{}

// wrap runs the library on a fresh copy of the inputs.
func (p *mPara) wrap(lw *shaping.LineWrapper) (res *wResult, raw [][]shaping.Output) {
	c := p.c
	runs := p.copyRuns()
	var it shaping.RunIterator
	switch c.Iter {
	case 1:
		it = newListIter(runs)
	case 2:
		// one library iterator object for the whole process, re-armed through its Reset method (pooled iterators)
		if wrapSharedIter == nil {
			wrapSharedIter = shaping.NewSliceIterator(runs)
		} else if rs, ok := wrapSharedIter.(interface{ Reset([]shaping.Output) }); ok {
			rs.Reset(runs)
		} else {
			wrapSharedIter = shaping.NewSliceIterator(runs)
		}
		it = wrapSharedIter
	default:
		it = shaping.NewSliceIterator(runs)
	}
	cfg := p.config()
	res = &wResult{inputRuns: runs}
	text := append([]rune(nil), c.Text...)
	if c.Iter == 2 {
		// the pooling caller also keeps its paragraphs in one rune buffer per length, overwritten in place for the next call
		b := wrapCallerText[len(c.Text)]
		if b == nil {
			b = make([]rune, len(c.Text))
			wrapCallerText[len(c.Text)] = b
		}
		copy(b, c.Text)
		text = b
	}
	if c.Driver == 0 {
		lines, tr := lw.WrapParagraph(cfg, c.Widths[0], text, it)
		res.truncated = tr
		for _, l := range lines {
			raw = append(raw, l)
		}
		res.lines = make([]wLine, len(raw))
		for i := range res.lines {
			res.lines[i].width = c.Widths[0]
		}
	} else {
		lw.Prepare(cfg, text, it)
		for i := 0; ; i++ {
			wl, done := lw.WrapNextLine(p.widthAt(i))
			if wl.Line != nil {
				raw = append(raw, wl.Line)
				res.lines = append(res.lines, wLine{width: p.widthAt(i), nextLine: wl.NextLine, hasNext: true})
			} else if !done && p.n > 0 {
				res.nilBeforeDone++
			}
			res.truncated = wl.Truncated
			if done {
				break
			}
			if i > 4*p.n+8 {
				return nil, nil // non-termination is reported by the caller
			}
		}
		wl, done := lw.WrapNextLine(p.widthAt(0))
		res.extraNil = wl.Line == nil && done
	}
	for i := range text {
		if text[i] != c.Text[i] {
			return nil, raw
		}
	}
	truncating := c.Trunc > 0
	for i, l := range raw {
		wl := &res.lines[i]
		rs := []shaping.Output(l)
		if truncating && i == len(raw)-1 && len(rs) > 0 && isTruncatorRun(&rs[len(rs)-1]) {
			t := rs[len(rs)-1]
			wl.truncator = &t
			rs = rs[:len(rs)-1]
		}
		wl.runs = rs
	}
	return res, raw
}

type lawSet struct {
	c02, c03, c04, c08 bool
}

func (p *mPara) sig() string {
	c := p.c
	return fmt.Sprintf("pol=%d pdir=%d trunc=%d", c.Policy, c.PDir, c.Trunc)
}

// checkWrap runs one case and evaluates the selected laws. It returns an outcome signature.
func checkWrap(r *mc.Reporter, p *mPara, lw *shaping.LineWrapper, laws lawSet) (sig string, nontrivial bool) {
	c := p.c
	var res *wResult
	var raw [][]shaping.Output
	prop := "C02"
	if laws.c08 {
		prop = "C08"
	} else if laws.c03 {
		prop = "C03"
	} else if laws.c04 {
		prop = "C04"
	}
	if !r.Guard(prop, c, func() { res, raw = p.wrap(lw) }) {
		// a panic is a C02 violation (totality); the other checks only count it
		return "panic", true
	}
	if res == nil {
		if laws.c02 {
			if raw != nil {
				r.Violation("C02:paragraph-text-modified", c, "the wrapper modified the caller's []rune")
			} else {
				r.Violation("C02:non-termination", c, "WrapNextLine did not report done within 4n+8 lines")
			}
		}
		return "nonterm", true
	}
	n := p.n
	vertical := p.vertical
	// ---- structure shared by all laws (computed defensively)
	structOK := true
	pos := 0
	for li := range res.lines {
		l := &res.lines[li]
		if len(l.runs) == 0 && l.truncator == nil {
			if laws.c02 {
				r.Violation("C02:empty-line", c, fmt.Sprintf("line %d has no runs", li))
			}
			structOK = false
			continue
		}
		l.start = pos
		for ri := range l.runs {
			run := &l.runs[ri]
			if run.Runes.Offset != pos || run.Runes.Count <= 0 {
				if laws.c02 {
					r.Violation("C02:rune-ranges-not-contiguous", c, fmt.Sprintf("line %d run %d covers [%d,+%d) but the previous run ended at %d", li, ri, run.Runes.Offset, run.Runes.Count, pos))
				}
				structOK = false
			}
			pos = run.Runes.Offset + run.Runes.Count
		}
		l.end = pos
		if l.hasNext && l.nextLine != l.end && laws.c02 {
			r.Violation("C02:NextLine", c, fmt.Sprintf("line %d: NextLine=%d but the line ends at %d", li, l.nextLine, l.end))
		}
	}
	if pos+res.truncated != n || res.truncated < 0 || (c.Trunc == 0 && res.truncated != 0) {
		if laws.c02 && structOK {
			r.Violation("C02:coverage", c, fmt.Sprintf("lines end at rune %d, truncated=%d, paragraph has %d runes", pos, res.truncated, n))
		}
		structOK = false
	}
	if res.nilBeforeDone > 0 && laws.c02 {
		r.Violation("C02:empty-line:WrapNextLine-returns-nothing-before-done", c, fmt.Sprintf("WrapNextLine returned an empty line with done=false %d time(s)", res.nilBeforeDone))
	}
	if c.Driver == 1 && !res.extraNil && laws.c02 {
		r.Violation("C02:after-done", c, "WrapNextLine after done did not return a nil line with done=true")
	}
	if !structOK {
		return "bad-structure", true
	}

	if laws.c02 {
		p.lawsC02(r, res)
	}
	if laws.c08 && !vertical {
		p.lawsC08(r, res)
	}
	// Domain rule: with a negative letter spacing the measured width is not monotone in the line
	// length (a longer candidate can be narrower than a shorter one), so "fits"/"greedy" are not
	// well defined; such cases are checked for conservation (C02) only.
	if c.LetterSp < 0 && (laws.c03 || laws.c04) {
		r.Count("negative_letter_spacing_cases_outside_width_laws", 1)
		return "neg-letter-spacing", false
	}
	if laws.c03 && !vertical {
		p.lawsC03(r, res)
	}
	if laws.c04 && !vertical {
		p.lawsC04(r, res)
	}
	// outcome signature: line ends + truncated + which line has a truncator
	sig = fmt.Sprintf("%s n=%d ends=", p.sig(), n)
	for _, l := range res.lines {
		sig += fmt.Sprintf("%d/%d,", l.end, len(l.runs))
	}
	sig += fmt.Sprintf("t=%d", res.truncated)
	return sig, len(res.lines) >= 2 || res.truncated > 0
}

// ---------------------------------------------------------------------------
// C02 (c)(d): every output run is a contiguous glyph slice of exactly one input run holding
// exactly the glyphs of the clusters of its rune range; advance = sum of its glyph advances.

func (p *mPara) lawsC02(r *mc.Reporter, res *wResult) {
	c := p.c
	for li, l := range res.lines {
		for ri := range l.runs {
			run := &l.runs[ri]
			s, e := run.Runes.Offset, run.Runes.Offset+run.Runes.Count
			// the single input run containing it
			in := -1
			for k := range p.runs {
				if p.runStart[k] <= s && e <= p.runEnd[k] {
					in = k
				}
			}
			if in < 0 {
				r.Violation("C02:run-spans-input-runs", c, fmt.Sprintf("line %d run %d [%d,%d) is not inside one input run", li, ri, s, e))
				continue
			}
			if run.Direction != p.runs[in].Direction || run.Face != p.runs[in].Face {
				r.Violation("C02:run-attributes", c, fmt.Sprintf("line %d run %d changed direction/face", li, ri))
			}
			// expected glyph ids: glyphs of input run `in` (array order) whose cluster lies in [s,e)
			var want []uint32
			splitCluster := false
			for _, g := range p.runs[in].Glyphs {
				ci := g.ClusterIndex
				if ci >= s && ci < e {
					want = append(want, g.Mask)
					if ci+g.RuneCount > e {
						splitCluster = true
					}
				} else if ci < s && ci+g.RuneCount > s {
					splitCluster = true
				}
			}
			if splitCluster {
				r.Violation("C02:cluster-split", c, fmt.Sprintf("line %d run %d [%d,%d) cuts through a glyph cluster", li, ri, s, e))
			}
			ok := len(want) == len(run.Glyphs)
			if ok {
				for i := range want {
					if run.Glyphs[i].Mask != want[i] {
						ok = false
					}
				}
			}
			if !ok {
				var got []uint32
				for _, g := range run.Glyphs {
					got = append(got, g.Mask)
				}
				r.Violation("C02:glyphs", c, fmt.Sprintf("line %d run %d [%d,%d) holds glyph ids %v, want %v", li, ri, s, e, got, want))
				continue
			}
			var sum fixed.Int26_6
			for i := range run.Glyphs {
				g := &run.Glyphs[i]
				if p.vertical {
					sum += g.YAdvance
				} else {
					sum += g.XAdvance
				}
				if g.ClusterIndex < s || g.ClusterIndex >= e {
					r.Violation("C02:glyph-cluster-outside-run", c, fmt.Sprintf("line %d run %d glyph %d has cluster %d outside [%d,%d)", li, ri, i, g.ClusterIndex, s, e))
				}
			}
			if sum != run.Advance {
				key := "C02:advance-mismatch"
				if c.LetterSp != 0 {
					key = "C02:advance-mismatch:letter-spacing"
				}
				r.Violation(key, c, fmt.Sprintf("line %d run %d [%d,%d): Advance=%d but its glyphs sum to %d", li, ri, s, e, run.Advance, sum))
			}
		}
		if l.truncator != nil {
			t := l.truncator
			if t.Runes.Offset != l.end || t.Runes.Count != res.truncated {
				r.Violation("C02:truncator-range", c, fmt.Sprintf("truncator reports runes {%d,%d}, want {%d,%d}", t.Runes.Offset, t.Runes.Count, l.end, res.truncated))
			}
		}
		// visual indices are a permutation (C08 proper checks the order)
		all := len(l.runs)
		if l.truncator != nil {
			all++
		}
		seen := make([]bool, all)
		okPerm := true
		mark := func(v int32) {
			if v < 0 || int(v) >= all || seen[v] {
				okPerm = false
				return
			}
			seen[v] = true
		}
		for ri := range l.runs {
			mark(l.runs[ri].VisualIndex)
		}
		if l.truncator != nil {
			mark(l.truncator.VisualIndex)
		}
		if !okPerm {
			r.Violation("C02:visual-index-not-permutation", c, fmt.Sprintf("line %d visual indices are not a permutation of 0..%d", li, all-1))
		}
	}
	// record (not judged) whether the caller's glyphs were written to
	mut := false
	for k := range p.runs {
		for i := range p.runs[k].Glyphs {
			if p.runs[k].Glyphs[i] != res.inputRuns[k].Glyphs[i] {
				mut = true
			}
		}
	}
	if mut {
		r.Count("input_mutated(recorded,not judged)", 1)
	}
}

// ---------------------------------------------------------------------------
// C03

func (p *mPara) lawsC03(r *mc.Reporter, res *wResult) {
	c := p.c
	n := p.n
	lastAllowed := -1
	if c.Trunc > 0 {
		lastAllowed = c.Trunc - 1
	}
	for li, l := range res.lines {
		e := l.end
		if !p.cs[e] {
			r.Violation("C03:ends-inside-cluster", c, fmt.Sprintf("line %d ends at rune %d inside a shaped cluster", li, e))
			continue
		}
		if e != n && e != l.start && !p.permitted(c.Policy, e) {
			key := "C03:ends-at-forbidden-position"
			if c.Policy == int(shaping.Never) {
				key = "C03:policy-never-ends-inside-segment"
			}
			r.Violation(key, c, fmt.Sprintf("line %d ends at rune %d which is neither a UAX#14 opportunity nor (policy %d) a grapheme boundary", li, e, c.Policy))
		}
		for m := l.start + 1; m < e; m++ {
			if p.mb[m] && p.cs[m] {
				r.Violation("C03:mandatory-break-ignored", c, fmt.Sprintf("line %d [%d,%d) continues past the mandatory break at %d", li, l.start, e, m))
			}
		}
		if c.Policy == int(shaping.WhenNecessary) && e != n && e != l.start && !p.lb[e] && li != lastAllowed {
			// the UAX#14 segment containing e
			s0 := e
			for s0 > 0 && !p.lb[s0] {
				s0--
			}
			e0 := e
			for e0 < n && !p.lb[e0] {
				e0++
			}
			if !p.cs[s0] || !p.cs[e0] {
				continue // cluster-fused segment: the wrapper cannot use these boundaries
			}
			// does the whole segment fit on an empty line of this width (upper bound of its measure)?
			hi, _ := p.measure(s0, e0)
			if hi.Ceil() <= l.width {
				r.Violation("C03:word-split-unnecessarily", c,
					fmt.Sprintf("policy WhenNecessary: line %d ends at %d inside the segment [%d,%d) which fits (%d) on a line of width %d by itself", li, e, s0, e0, hi.Ceil(), l.width))
			}
		}
	}
}

// ---------------------------------------------------------------------------
// measures on the pristine input

// pieces returns, for rune interval [s,e) aligned on cluster starts, the list of glyph model
// indices per run piece, in array order, in logical run order.
func (p *mPara) pieces(s, e int) (out [][]int, dirs []di.Direction) {
	for ri := range p.runs {
		if p.runEnd[ri] <= s || p.runStart[ri] >= e {
			continue
		}
		var gl []int
		for ai := range p.runs[ri].Glyphs {
			gi := p.glyphAt(ri, ai)
			cl := &p.clusters[p.glyphs[gi].cluster]
			if cl.start >= s && cl.start < e {
				gl = append(gl, gi)
			}
		}
		if len(gl) > 0 {
			out = append(out, gl)
			dirs = append(dirs, p.runs[ri].Direction)
		}
	}
	return
}

func discountOf(g *mGlyph) fixed.Int26_6 {
	if g.white {
		return g.adv
	}
	return g.endSp
}

// visualLastPiece returns the index (in logical order) of the piece that is visually last in
// paragraph direction, under the two-level reading (same direction as the paragraph = paragraph level).
func visualLastPiece(dirs []di.Direction, pdir di.Direction) int {
	// visually last in paragraph direction = the end of the line. Trailing pieces running against the
	// paragraph are reversed as a block: the first of them ends up at the line end.
	i := len(dirs) - 1
	if dirs[i].Progression() == pdir.Progression() {
		return i
	}
	for i > 0 && dirs[i-1].Progression() != pdir.Progression() {
		i--
	}
	return i
}

// measure returns an upper and a lower bound of the measured width of a line holding exactly
// the clusters of [s,e), computed from the pristine input. hi = sum - min(discount A, discount B);
// lo = sum - max(discounts) - the largest start letter spacing the wrapper may trim.
func (p *mPara) measure(s, e int) (hi, lo fixed.Int26_6) {
	pcs, dirs := p.pieces(s, e)
	if len(pcs) == 0 {
		return 0, 0
	}
	pdir := wDirs[p.c.PDir]
	var sum, maxStart, minStart fixed.Int26_6
	for _, gl := range pcs {
		for _, gi := range gl {
			sum += p.glyphs[gi].adv
			if p.glyphs[gi].startSp > maxStart {
				maxStart = p.glyphs[gi].startSp
			}
			if p.glyphs[gi].startSp < minStart {
				minStart = p.glyphs[gi].startSp
			}
		}
	}
	// reading A: logically last glyph of the logically last piece if it runs with the paragraph
	last := len(pcs) - 1
	var dA fixed.Int26_6
	if dirs[last] == pdir {
		gl := pcs[last]
		if dirs[last].Progression() == di.FromTopLeft {
			dA = discountOf(&p.glyphs[gl[len(gl)-1]])
		} else {
			dA = discountOf(&p.glyphs[gl[0]])
		}
	}
	// reading B: the glyph visually last in paragraph direction
	vl := visualLastPiece(dirs, pdir)
	gl := pcs[vl]
	var dB fixed.Int26_6
	if pdir.Progression() == di.FromTopLeft {
		dB = discountOf(&p.glyphs[gl[len(gl)-1]])
	} else {
		dB = discountOf(&p.glyphs[gl[0]])
	}
	dmin, dmax := dA, dB
	if dmin > dmax {
		dmin, dmax = dmax, dmin
	}
	// trimming a negative start letter spacing widens the line (minStart <= 0);
	// a negative "discount" (negative trailing letter spacing) does too.
	if dmax < 0 {
		dmax = 0 // reading C: a negative trailing spacing is simply kept
	}
	return sum - dmin - minStart, sum - dmax - maxStart
}

// actualMeasure: the measured width of a returned line under readings A and B, from the glyph
// values as they are on the returned line.
func (p *mPara) actualMeasure(l *wLine) (a, b fixed.Int26_6) {
	pdir := wDirs[p.c.PDir]
	var sum fixed.Int26_6
	var dirs []di.Direction
	for ri := range l.runs {
		for gi := range l.runs[ri].Glyphs {
			sum += p.absAdv(&l.runs[ri].Glyphs[gi], p.vertical)
		}
		dirs = append(dirs, l.runs[ri].Direction)
	}
	if len(l.runs) == 0 {
		return 0, 0
	}
	disc := func(g *shaping.Glyph) fixed.Int26_6 {
		mg := &p.glyphs[int(g.Mask)-1]
		if g.Width == 0 {
			return p.absAdv(g, p.vertical)
		}
		return mg.endSp
	}
	last := len(l.runs) - 1
	var dA fixed.Int26_6
	if dirs[last] == pdir {
		gs := l.runs[last].Glyphs
		if dirs[last].Progression() == di.FromTopLeft {
			dA = disc(&gs[len(gs)-1])
		} else {
			dA = disc(&gs[0])
		}
	}
	// reading B: by the visual indices the wrapper itself assigned
	vl := 0
	for ri := range l.runs {
		if pdir.Progression() == di.FromTopLeft {
			if l.runs[ri].VisualIndex > l.runs[vl].VisualIndex {
				vl = ri
			}
		} else if l.runs[ri].VisualIndex < l.runs[vl].VisualIndex {
			vl = ri
		}
	}
	gs := l.runs[vl].Glyphs
	var dB fixed.Int26_6
	if pdir.Progression() == di.FromTopLeft {
		dB = disc(&gs[len(gs)-1])
	} else {
		dB = disc(&gs[0])
	}
	a, b = sum-dA, sum-dB
	// reading C: a negative trailing letter spacing is kept (not "removed", which would widen the line)
	if sum < a {
		a = sum
	}
	if sum < b {
		b = sum
	}
	return a, b
}

// ---------------------------------------------------------------------------
// C04

func (p *mPara) nextPermitted(policy int, from int, lbOnly bool) int {
	for i := from + 1; i < p.n; i++ {
		if !p.cs[i] {
			continue
		}
		if p.lb[i] || (!lbOnly && policy != int(shaping.Never) && p.gb[i]) {
			return i
		}
	}
	return p.n
}

func (p *mPara) lawsC04(r *mc.Reporter, res *wResult) {
	c := p.c
	n := p.n
	k := c.Trunc
	if k > 0 && len(res.lines) > k {
		r.Violation("C04:too-many-lines", c, fmt.Sprintf("TruncateAfterLines=%d but %d lines were returned", k, len(res.lines)))
	}
	for li := range res.lines {
		l := &res.lines[li]
		// the k-th line is the last one the wrapper may return; an earlier WrapNextLine call that
		// produced nothing still counts against k in the library, so the statement's "k-th line"
		// is identified as: truncation active and this is the last returned line and the paragraph
		// was not finished before it.
		isKth := k > 0 && li == len(res.lines)-1 && (li == k-1 || res.truncated > 0 || l.truncator != nil)
		if isKth {
			want := res.truncated > 0 || c.Continues
			if want != (l.truncator != nil) {
				r.Violation("C04:truncator-presence", c, fmt.Sprintf("line %d: truncated=%d TextContinues=%v but truncator present=%v", li, res.truncated, c.Continues, l.truncator != nil))
			}
			if l.truncator != nil && (l.truncator.Runes.Offset != l.end || l.truncator.Runes.Count != res.truncated) {
				r.Violation("C04:truncator-range", c, fmt.Sprintf("truncator reports {%d,%d}, want {%d,%d}", l.truncator.Runes.Offset, l.truncator.Runes.Count, l.end, res.truncated))
			}
		}
		if !isKth && res.truncated > 0 && li == len(res.lines)-1 {
			r.Violation("C04:truncated-without-limit", c, "runes reported truncated on a line that is not the k-th")
		}
		if len(l.runs) == 0 {
			continue
		}
		// (a) fits unless single unbreakable unit
		unit := true
		for i := l.start + 1; i < l.end; i++ {
			if p.permitted(c.Policy, i) {
				unit = false
			}
		}
		mA, mB := p.actualMeasure(l)
		m := mA
		if mB < m {
			m = mB
		}
		width := l.width
		if !unit && m.Ceil() > width {
			key := "C04:over-wide-line"
			// the known mechanism: a UAX#14 opportunity inside the line falls inside a shaped cluster
			fused := false
			for i := l.start + 1; i < l.end; i++ {
				if p.lb[i] && !p.cs[i] {
					fused = true
				}
			}
			if fused {
				key = "C04:over-wide-line:uax14-candidate-inside-cluster"
			}
			r.Violation(key, c, fmt.Sprintf("line %d [%d,%d) measures %d (A) / %d (B) > width %d and contains a permitted break", li, l.start, l.end, mA.Ceil(), mB.Ceil(), width))
		}
		// (d) the truncated line is filled against width - ceil(truncator advance)
		if l.truncator != nil && !unit {
			tw := l.truncator.Advance
			if tw < 0 {
				tw = -tw
			}
			if m.Ceil() > width-tw.Ceil() && c.Policy != int(shaping.Never) {
				r.Violation("C04:truncated-line-ignores-truncator-width", c,
					fmt.Sprintf("line %d measures %d but only %d-%d is available next to the truncator", li, m.Ceil(), width, tw.Ceil()))
			}
		}
		// (b) maximality
		e := l.end
		if e == n || p.mb[e] && p.cs[e] || l.truncator != nil || isKth {
			continue
		}
		lbOnly := c.Policy == int(shaping.WhenNecessary) && p.lb[e]
		nx := p.nextPermitted(c.Policy, e, lbOnly)
		// stop at a mandatory break in between
		for i := e + 1; i < nx; i++ {
			if p.mb[i] && p.cs[i] {
				nx = i
				break
			}
		}
		hi, _ := p.measure(l.start, nx)
		if hi.Ceil() <= width {
			r.Violation("C04:not-greedy", c,
				fmt.Sprintf("line %d [%d,%d) could have been extended to the next permitted break %d: measure %d <= width %d", li, l.start, e, nx, hi.Ceil(), width))
		}
	}
}

// ---------------------------------------------------------------------------
// C08 on synthetic direction vectors. The wrapper only sees each run's direction; every direction
// vector is realisable by a paragraph whose runs sit exactly at the paragraph level (same direction)
// or one above (opposite direction), for which rule L2 gives the order computed here. A correct
// implementation cannot tell realisations apart, so it must produce this order.

func (p *mPara) lawsC08(r *mc.Reporter, res *wResult) {
	c := p.c
	pdir := wDirs[c.PDir]
	pl := 0
	if pdir.Progression() == di.TowardTopLeft {
		pl = 1
	}
	rtlPara := pl == 1
	for li := range res.lines {
		l := &res.lines[li]
		all := append([]shaping.Output(nil), l.runs...)
		if l.truncator != nil {
			all = append(all, *l.truncator)
		}
		m := len(all)
		lv := make([]int, m)
		for i := range all {
			lv[i] = pl
			if all[i].Direction.Progression() != pdir.Progression() {
				lv[i] = pl + 1
			}
		}
		want := l2Order(lv)
		var got []int
		ok := true
		for i := range all {
			got = append(got, int(all[i].VisualIndex))
			if got[i] != want[i] {
				ok = false
			}
		}
		if !ok {
			key := "C08:order:synthetic"
			if l.truncator != nil {
				key = "C08:order:synthetic:with-truncator"
			}
			r.Violation(key, c, fmt.Sprintf("line %d: run directions give levels %v (paragraph level %d): VisualIndex=%v, rule L2 gives %v", li, lv, pl, got, want))
			continue
		}
		if c.NoTrim || len(l.runs) == 0 {
			continue
		}
		// trimming hits the visually last text glyph in paragraph direction and nothing else
		last := -1
		for i := range l.runs {
			if last < 0 || (!rtlPara && want[i] > want[last]) || (rtlPara && want[i] < want[last]) {
				last = i
			}
		}
		fastPath := len(res.lines) == 1 && len(p.runs) == 1 && c.Driver == 0
		for i := range l.runs {
			gs := l.runs[i].Glyphs
			for gi := range gs {
				g := &gs[gi]
				mg := &p.glyphs[int(g.Mask)-1]
				endPos := (!rtlPara && gi == len(gs)-1) || (rtlPara && gi == 0)
				isEnd := i == last && endPos
				cur := p.absAdv(g, false)
				if isEnd && g.Width == 0 && cur != 0 && !fastPath {
					r.Violation("C08:trim-missed:synthetic", c, fmt.Sprintf("line %d: the visually last glyph in paragraph direction (id %d) is whitespace but kept its advance", li, g.Mask))
				}
				if !isEnd && cur != mg.adv && cur != mg.adv-mg.startSp {
					r.Violation("C08:trim-wrong-glyph:synthetic", c, fmt.Sprintf("line %d: glyph id %d had its advance changed (%d -> %d) but is not the visually last glyph in paragraph direction", li, g.Mask, mg.adv, cur))
				}
			}
		}
	}
}
