package checks

// Shaping enumeration shared by C01 (totality and cluster accounting) and C12 (geometry).

import (
	"bytes"
	"encoding/json"
	"fmt"
	"sort"
	"strconv"
	"strings"
	"unicode"

	"github.com/go-text/typesetting/di"
	"github.com/go-text/typesetting/font"
	ot "github.com/go-text/typesetting/font/opentype"
	"github.com/go-text/typesetting/harfbuzz"
	"github.com/go-text/typesetting/language"
	"github.com/go-text/typesetting/shaping"
	ucd "github.com/go-text/typesetting/unicodedata"
	"golang.org/x/image/math/fixed"

	"verif/corpus"
	"verif/mc"
)

type shCase struct {
	File   string `json:"file"`
	Face   int    `json:"face"`
	Text   []rune `json:"text"`
	Start  int    `json:"start"`
	End    int    `json:"end"`
	Dir    int    `json:"dir"`    // 0 LTR 1 RTL 2 TTB 3 BTT 4 TTB sideways 5 BTT sideways
	Script string `json:"script"` // 4 letter tag
	Lang   string `json:"lang"`
	Size   int    `json:"size"`  // 26.6
	Feats  int    `json:"feats"` // 0 none, 1 liga=0 kern=0, 2 first optional feature of the font on
	API    int    `json:"api"`   // 0 shaping.Shape, 1 harfbuzz.Buffer.Shape
	Flags  int    `json:"flags"` // harfbuzz flags (API 1)
	Level  int    `json:"level"` // cluster level (API 1)
	WordSp int    `json:"wordsp,omitempty"`
	LetSp  int    `json:"letsp,omitempty"`
	Pos    int    `json:"pos,omitempty"` // spacing run position flags
}

func shDir(k int) di.Direction {
	switch k {
	case 0:
		return di.DirectionLTR
	case 1:
		return di.DirectionRTL
	case 2:
		return di.DirectionTTB
	case 3:
		return di.DirectionBTT
	case 4:
		d := di.DirectionTTB
		d.SetSideways(true)
		return d
	}
	d := di.DirectionBTT
	d.SetSideways(true)
	return d
}

// ---- font derived alphabets ----------------------------------------------------------------------

var shUniversal = []rune{' ', 0x200D, 0x200C, 0x0301, 0x00AD, 0x034F, 0x25CC, '\n', 0x0378 /*unassigned*/, 0xFE0F, 0x2044, '1'}

// per-script alphabets: one rune per shaping category of each complex shaper (the property's "per-script alphabets")
type shPack struct {
	script string
	runes  []rune
}

var shPacks = []shPack{
	// normalisation: two marks of the same combining class, one of another class, a precomposed letter
	{"Latn", []rune{'a', 'e', 0x0301, 0x0305, 0x0323, 0x00E1}},
	{"Hang", []rune{0x1100, 0x1161, 0x11A8, 0xAC00, 0xAC01, 0x302E, 0x302F}},
	{"Arab", []rune{0x0628, 0x0627, 0x0644, 0x064E, 0x0651, 0x0640, 0x0661, 0x0626, 0x06DD}},
	{"Hebr", []rune{0x05D0, 0x05BC, 0x05B7, 0x05C1, 0x05E9, 0x05D5}},
	{"Deva", []rune{0x0915, 0x094D, 0x0930, 0x093F, 0x0902, 0x093C, 0x0947, 0x0905}},
	{"Beng", []rune{0x0995, 0x09CD, 0x09B0, 0x09BF, 0x09CB, 0x09BC, 0x09CE}},
	{"Taml", []rune{0x0B95, 0x0BCD, 0x0BC6, 0x0BCA, 0x0BB7}},
	{"Mlym", []rune{0x0D15, 0x0D4D, 0x0D4E, 0x0D30, 0x0D46, 0x0D4A}},
	{"Thai", []rune{0x0E01, 0x0E33, 0x0E48, 0x0E38, 0x0E31, 0x0E40}},
	{"Khmr", []rune{0x1780, 0x17D2, 0x17B6, 0x17C1, 0x17C6, 0x179A}},
	{"Mymr", []rune{0x1000, 0x103A, 0x103B, 0x102D, 0x1039, 0x1031}},
	{"Mong", []rune{0x1820, 0x1821, 0x180B, 0x180E, 0x1828}},
	{"Tibt", []rune{0x0F40, 0x0F72, 0x0F90, 0x0F0B}},
	{"Sinh", []rune{0x0D9A, 0x0DCA, 0x0DBB, 0x0DD9, 0x200D}},
}

type shFont struct {
	file     *corpus.File
	idx      int
	ft       *font.Font
	alphabet []rune
	classes  int
	optFeat  ot.Tag
	hasMorx  bool
	hasOT    bool
}

// deriveAlphabet groups the runes of the cmap by (script, general category, set of GSUB/GPOS lookups whose
// first-glyph coverage holds the nominal glyph) and takes one rune of each of the k groups taking part
// in most lookups, followed by the universal troublemakers.
func deriveAlphabet(ft *font.Font, k, nUniversal int) ([]rune, int) {
	type group struct {
		first   rune
		lookups int
		size    int
	}
	groups := map[string]*group{}
	it := ft.Cmap.Iter()
	n := 0
	for it.Next() {
		r, g := it.Char()
		n++
		if n > 20000 {
			break // very large (CJK) fonts: the first 20000 mapped runes
		}
		if r < 0x20 || r == 0xFFFF || g == 0 {
			continue
		}
		var sig strings.Builder
		fmt.Fprintf(&sig, "%s|%p|", language.LookupScript(r), ucd.LookupType(r))
		nl := 0
		for li, lk := range ft.GSUB.Lookups {
			for _, st := range lk.Subtables {
				if cov := st.Cov(); cov != nil {
					if _, ok := cov.Index(tablesGID(g)); ok {
						fmt.Fprintf(&sig, "s%d,", li)
						nl++
						break
					}
				}
			}
		}
		for li, lk := range ft.GPOS.Lookups {
			for _, st := range lk.Subtables {
				if cov := st.Cov(); cov != nil {
					if _, ok := cov.Index(tablesGID(g)); ok {
						fmt.Fprintf(&sig, "p%d,", li)
						nl++
						break
					}
				}
			}
		}
		key := sig.String()
		if gr, ok := groups[key]; ok {
			gr.size++
		} else {
			groups[key] = &group{first: r, lookups: nl, size: 1}
		}
	}
	var gs []*group
	for _, g := range groups {
		gs = append(gs, g)
	}
	sort.Slice(gs, func(i, j int) bool {
		if gs[i].lookups != gs[j].lookups {
			return gs[i].lookups > gs[j].lookups
		}
		if gs[i].size != gs[j].size {
			return gs[i].size > gs[j].size
		}
		return gs[i].first < gs[j].first
	})
	var out []rune
	seen := map[rune]bool{}
	for i := 0; i < len(gs) && len(out) < k; i++ {
		out = append(out, gs[i].first)
		seen[gs[i].first] = true
	}
	for _, r := range shUniversal[:nUniversal] {
		if !seen[r] {
			out = append(out, r)
			seen[r] = true
		}
	}
	return out, len(gs)
}

func loadShFonts(f *corpus.File, k, nUniversal int) []*shFont {
	var out []*shFont
	for i, ld := range corpus.Loaders(f) {
		var ft *font.Font
		func() {
			defer func() { recover() }()
			ft, _ = font.NewFont(ld)
		}()
		if ft == nil {
			continue
		}
		sf := &shFont{file: f, idx: i, ft: ft}
		func() {
			defer func() {
				if recover() != nil {
					sf.alphabet = append([]rune{'a'}, shUniversal[:nUniversal]...)
				}
			}()
			sf.alphabet, sf.classes = deriveAlphabet(ft, k, nUniversal)
		}()
		sf.hasMorx = ld.HasTable(ot.MustNewTag("morx")) || ld.HasTable(ot.MustNewTag("mort"))
		sf.hasOT = len(ft.GSUB.Lookups) > 0 || len(ft.GPOS.Lookups) > 0
		// first optional feature: a GSUB feature which is not enabled by default
		for _, fe := range ft.GSUB.Features {
			switch fe.Tag.String() {
			case "smcp", "c2sc", "onum", "frac", "ss01", "ss02", "swsh", "zero", "dlig", "salt", "hist", "titl", "case", "sups", "subs", "tnum":
				sf.optFeat = fe.Tag
			}
			if sf.optFeat != 0 {
				break
			}
		}
		out = append(out, sf)
	}
	return out
}

// shaperClass names the complex shaper HarfBuzz selects for the script (the unit of the domain rule)
func shaperClass(sf *shFont, sc language.Script) string {
	if sf.hasMorx {
		return "aat"
	}
	switch sc {
	case language.Arabic, language.Syriac, language.Mongolian, language.Nko, language.Adlam, language.Hanifi_Rohingya, language.Mandaic, language.Manichaean, language.Phags_Pa, language.Psalter_Pahlavi, language.Sogdian:
		return "arabic"
	case language.Hebrew:
		return "hebrew"
	case language.Hangul:
		return "hangul"
	case language.Thai, language.Lao:
		return "thai"
	case language.Devanagari, language.Bengali, language.Gujarati, language.Gurmukhi, language.Kannada, language.Malayalam, language.Oriya, language.Tamil, language.Telugu:
		return "indic"
	case language.Khmer:
		return "khmer"
	case language.Myanmar:
		return "myanmar"
	case language.Latin, language.Greek, language.Cyrillic, language.Common, language.Inherited, language.Unknown, language.Han, language.Hiragana, language.Katakana, language.Armenian, language.Georgian:
		return "default"
	}
	return "use-or-default"
}

func textScript(t []rune) language.Script {
	for _, r := range t {
		if s := language.LookupScript(r); s.Strong() && s != language.Unknown {
			return s
		}
	}
	return language.Common
}

func (c *shCase) features() []shaping.FontFeature {
	switch c.Feats {
	case 1:
		return []shaping.FontFeature{{Tag: ot.MustNewTag("liga"), Value: 0}, {Tag: ot.MustNewTag("kern"), Value: 0}}
	case 2:
		return nil // filled by the caller with the font's optional feature
	}
	return nil
}

// ---- one shaping case -----------------------------------------------------------------------------

type shEnv struct {
	r      *mc.Reporter
	prop   string // C01 or C12
	shaper shaping.HarfbuzzShaper
	buf    *harfbuzz.Buffer
	hbFont *harfbuzz.Font
	face   *font.Face
	sf     *shFont
}

func parseScript(s string) language.Script {
	sc, err := language.ParseScript(s)
	if err != nil {
		return language.Common
	}
	return sc
}

func (e *shEnv) input(c *shCase) shaping.Input {
	in := shaping.Input{Text: c.Text, RunStart: c.Start, RunEnd: c.End, Direction: shDir(c.Dir), Face: e.face,
		Size: fixed.Int26_6(c.Size), Script: parseScript(c.Script), Language: language.NewLanguage(c.Lang)}
	switch c.Feats {
	case 1:
		in.FontFeatures = c.features()
	case 2:
		if e.sf.optFeat != 0 {
			in.FontFeatures = []shaping.FontFeature{{Tag: e.sf.optFeat, Value: 1}, {Tag: ot.MustNewTag("liga"), Value: 0}}
		}
	}
	return in
}

func (e *shEnv) shape(c *shCase) {
	r := e.r
	r.Eval()
	r.Journal(fmt.Sprintf("%s#%d %U [%d,%d) dir%d %s size%d f%d api%d fl%d lv%d", c.File, c.Face, c.Text, c.Start, c.End, c.Dir, c.Script, c.Size, c.Feats, c.API, c.Flags, c.Level))
	if c.API == 1 {
		e.shapeHB(c)
		return
	}
	in := e.input(c)
	var out shaping.Output
	if !r.Guard(e.prop, c, func() { out = e.shaper.Shape(in) }) {
		// totality is C01's clause; C12 only counts
		return
	}
	n := len(c.Text)
	if e.prop == "C01" {
		e.lawsC01(c, &out, n)
	} else {
		e.lawsC12(c, in, &out)
	}
	r.OutcomeStr(fmt.Sprintf("d%d g%d/%d", c.Dir, len(out.Glyphs), c.End-c.Start), len(out.Glyphs) > 0 && len(out.Glyphs) != c.End-c.Start)
	if len(out.Glyphs) > 1 && len(out.Glyphs) != c.End-c.Start && r.WantSample() {
		r.Sample(c)
	}
}

func (e *shEnv) lawsC01(c *shCase, out *shaping.Output, n int) {
	r := e.r
	runLen := c.End - c.Start
	inRange := 0 <= c.Start && c.Start <= c.End && c.End <= n
	// (2) output size budget
	// (a budget proportional to the run length: twice the library's own growth limit max(64 n, 16384), which an
	// insertion may overshoot by one action)
	budget := 64 * runLen
	if budget < 16384 {
		budget = 16384
	}
	budget *= 2
	if len(out.Glyphs) > budget {
		r.Violation("C01:output-size", c, fmt.Sprintf("%d glyphs for a run of %d runes", len(out.Glyphs), runLen))
	}
	// (3) reported rune range: exactly as requested (for reversed bounds the normalised range is accepted too)
	okRange := out.Runes.Offset == c.Start && out.Runes.Count == c.End-c.Start
	if c.End < c.Start && out.Runes.Offset == c.End && out.Runes.Count == c.Start-c.End {
		okRange = true
	}
	if !okRange {
		r.Violation("C01:runes-range", c, fmt.Sprintf("Runes=%+v for the requested [%d,%d)", out.Runes, c.Start, c.End))
	}
	if out.Face != e.face || out.Size != fixed.Int26_6(c.Size) {
		r.Violation("C01:face-size", c, "Output does not carry the input face/size")
	}
	if !inRange {
		return
	}
	rtl := shDir(c.Dir).Progression() == di.TowardTopLeft
	sum := 0
	for i := 0; i < len(out.Glyphs); {
		g := out.Glyphs[i]
		// (4) cluster inside the run
		if g.ClusterIndex < c.Start || g.ClusterIndex >= c.End {
			r.Violation("C01:cluster-outside-run", c, fmt.Sprintf("glyph %d has cluster %d outside [%d,%d)", i, g.ClusterIndex, c.Start, c.End))
			return
		}
		j := i
		for j < len(out.Glyphs) && out.Glyphs[j].ClusterIndex == g.ClusterIndex {
			// (6) same counts inside a cluster
			if out.Glyphs[j].RuneCount != g.RuneCount || out.Glyphs[j].GlyphCount != g.GlyphCount {
				r.Violation("C01:cluster-counts-differ", c, fmt.Sprintf("glyphs %d and %d of cluster %d carry different counts", i, j, g.ClusterIndex))
				return
			}
			j++
		}
		if g.GlyphCount != j-i {
			r.Violation("C01:glyph-count", c, fmt.Sprintf("cluster %d: GlyphCount=%d but %d glyphs", g.ClusterIndex, g.GlyphCount, j-i))
			return
		}
		if g.RuneCount <= 0 {
			r.Violation("C01:rune-count", c, fmt.Sprintf("cluster %d: RuneCount=%d", g.ClusterIndex, g.RuneCount))
			return
		}
		sum += g.RuneCount
		// (5) monotone in reading direction
		if j < len(out.Glyphs) {
			next := out.Glyphs[j].ClusterIndex
			if (!rtl && next < g.ClusterIndex) || (rtl && next > g.ClusterIndex) {
				r.Violation("C01:clusters-not-monotone"+shMonotoneClass(c, rtl), c, fmt.Sprintf("cluster %d followed by %d (rtl=%v)", g.ClusterIndex, next, rtl))
				return
			}
		}
		i = j
	}
	// (7) rune counts sum to the run length
	if len(out.Glyphs) > 0 && sum != runLen {
		r.Violation("C01:rune-counts-sum", c, fmt.Sprintf("per-cluster rune counts sum to %d for a run of %d runes", sum, runLen))
	}
}

func (e *shEnv) shapeHB(c *shCase) {
	r := e.r
	b := e.buf
	n := len(c.Text)
	if !(0 <= c.Start && c.Start <= c.End && c.End <= n) {
		return
	}
	feats := []harfbuzz.Feature(nil)
	if c.Feats == 1 {
		feats = []harfbuzz.Feature{{Tag: ot.MustNewTag("liga"), Value: 0, Start: harfbuzz.FeatureGlobalStart, End: harfbuzz.FeatureGlobalEnd},
			{Tag: ot.MustNewTag("kern"), Value: 0, Start: 1, End: 2}}
	}
	ok := r.Guard(e.prop, c, func() {
		b.Clear()
		b.Props = harfbuzz.SegmentProperties{Direction: shDir(c.Dir).Harfbuzz(), Script: parseScript(c.Script), Language: language.NewLanguage(c.Lang)}
		b.Flags = harfbuzz.ShappingOptions(c.Flags)
		b.ClusterLevel = harfbuzz.ClusterLevel(c.Level)
		b.AddRunes(c.Text, c.Start, c.End-c.Start)
		b.Shape(e.hbFont, feats)
	})
	if !ok || e.prop != "C01" {
		return
	}
	if len(b.Info) != len(b.Pos) {
		r.Violation("C01:hb:info-pos-length", c, fmt.Sprintf("len(Info)=%d len(Pos)=%d", len(b.Info), len(b.Pos)))
		return
	}
	budget := 64 * (c.End - c.Start)
	if budget < 16384 {
		budget = 16384
	}
	budget *= 2
	if len(b.Info) > budget {
		r.Violation("C01:hb:output-size", c, fmt.Sprintf("%d glyphs for %d runes", len(b.Info), c.End-c.Start))
	}
	rtl := shDir(c.Dir).Progression() == di.TowardTopLeft
	for i, info := range b.Info {
		if info.Cluster < c.Start || info.Cluster >= c.End {
			r.Violation("C01:hb:cluster-outside-run", c, fmt.Sprintf("glyph %d has cluster %d outside [%d,%d)", i, info.Cluster, c.Start, c.End))
			return
		}
		if c.Level != int(harfbuzz.Characters) && i > 0 {
			prev := b.Info[i-1].Cluster
			if (!rtl && info.Cluster < prev) || (rtl && info.Cluster > prev) {
				r.Violation("C01:hb:clusters-not-monotone"+shMonotoneClass(c, rtl), c, fmt.Sprintf("cluster %d after %d at level %d (rtl=%v)", info.Cluster, prev, c.Level, rtl))
				return
			}
		}
	}
	r.OutcomeStr(fmt.Sprintf("hb f%d l%d g%d/%d", c.Flags, c.Level, len(b.Info), c.End-c.Start), len(b.Info) != c.End-c.Start)
}

// ---- enumeration per font ---------------------------------------------------------------------------

func (e *shEnv) font(sf *shFont, maxLen int, full bool) {
	r := e.r
	e.sf = sf
	e.face = font.NewFace(sf.ft)
	e.buf = harfbuzz.NewBuffer()
	e.hbFont = harfbuzz.NewFont(e.face)
	name := sf.file.Name
	r.Max("max_alphabet", int64(len(sf.alphabet)))
	mismatch := "Deva"
	enumTexts(sf.alphabet, 0, maxLen, func(idx int, t []rune) bool {
		if r.Expired() {
			return false
		}
		n := len(t)
		ts := textScript(t)
		if ts == language.Devanagari || ts == language.Bengali {
			mismatch = "Arab"
		} else {
			mismatch = "Deva"
		}
		base := shCase{File: name, Face: sf.idx, Text: t, Start: 0, End: n, Script: ts.String(), Size: 16 << 6}
		// A: whole text, six directions
		for d := 0; d < 6; d++ {
			c := base
			c.Dir = d
			e.shape(&c)
		}
		if e.prop == "C12" {
			// sizes and features matter for geometry too
			for _, sz := range []int{1 << 6, 2 << 6, 16<<6 + 32, 63<<6 + 63, 4096 << 6} {
				c := base
				c.Size = sz
				e.shape(&c)
				c.Dir = 4
				e.shape(&c)
			}
			// the advance is linear in the size (up to the rounding of every glyph), in every direction - also when the
			// shaper keeps its harfbuzz.Font from one size to the next (font cache on in this environment)
			for _, d := range []int{0, 2, 3, 4} {
				c := base
				c.Dir = d
				var ref shaping.Output
				if !r.Guard("C12", &c, func() { ref = e.shaper.Shape(e.input(&c)) }) {
					continue
				}
				for _, sz := range []int{64 << 6, 4 << 6, 256 << 6} {
					c.Size = sz
					var out shaping.Output
					if !r.Guard("C12", &c, func() { out = e.shaper.Shape(e.input(&c)) }) {
						continue
					}
					r.Eval()
					want := float64(ref.Advance) * float64(sz) / float64(base.Size)
					tol := float64(len(out.Glyphs)+len(ref.Glyphs)+1) * (float64(sz)/float64(base.Size) + 1) * 0.6
					if got := float64(out.Advance); len(out.Glyphs) == len(ref.Glyphs) && (got-want > tol || want-got > tol) {
						r.Violation("C12:advance-not-linear-in-size", &c, fmt.Sprintf("advance %v at size %v, %v at size %v (direction %d): expected about %.1f", out.Advance, fixed.Int26_6(sz), ref.Advance, fixed.Int26_6(base.Size), d, want/64))
					}
				}
			}
			return true
		}
		// B: every sub-run with its context, LTR and RTL (including empty runs)
		for s := 0; s <= n; s++ {
			for en := s; en <= n; en++ {
				if s == 0 && en == n {
					continue
				}
				for d := 0; d < 2; d++ {
					c := base
					c.Start, c.End, c.Dir = s, en, d
					e.shape(&c)
				}
			}
		}
		// C: bounds outside the contract: reversed, beyond the text, negative
		for _, be := range [][2]int{{n, 0}, {0, n + 2}, {-1, n}, {n + 1, n + 3}} {
			c := base
			c.Start, c.End = be[0], be[1]
			e.shape(&c)
		}
		// D: scripts: Common, a complex shaper not matching the text, Hangul, Thai
		for _, sc := range []string{"Zyyy", mismatch, "Hang", "Thai", "Khmr", "Mymr", "Arab", "Hebr"} {
			c := base
			c.Script = sc
			e.shape(&c)
			if full {
				c.Dir = 1
				e.shape(&c)
			}
		}
		// E: sizes
		for _, sz := range []int{0, 1 << 6, 16<<6 + 32, 4096 << 6} {
			c := base
			c.Size = sz
			e.shape(&c)
		}
		// F, G: features and language
		for _, fe := range []int{1, 2} {
			c := base
			c.Feats = fe
			e.shape(&c)
			c.Dir = 1
			e.shape(&c)
		}
		{
			c := base
			c.Lang = "en"
			e.shape(&c)
		}
		// H: harfbuzz level: flags x cluster levels, LTR and RTL (and vertical at level 0)
		for _, fl := range []int{0, int(harfbuzz.Bot), int(harfbuzz.Eot), int(harfbuzz.Bot | harfbuzz.Eot), int(harfbuzz.RemoveDefaultIgnorables), int(harfbuzz.PreserveDefaultIgnorables), int(harfbuzz.ProduceUnsafeToConcat)} {
			for lv := 0; lv < 3; lv++ {
				for d := 0; d < 2; d++ {
					c := base
					c.API, c.Flags, c.Level, c.Dir = 1, fl, lv, d
					e.shape(&c)
				}
			}
		}
		if n >= 2 {
			c := base
			c.API, c.Start, c.End, c.Feats = 1, 1, n, 1
			e.shape(&c)
			c.Dir = 2
			e.shape(&c)
		}
		return true
	})
	// script packs the font covers: strings over the pack with the script tag set, both API levels
	for _, pk := range shPacks {
		var al []rune
		for _, ru := range pk.runes {
			if _, ok := sf.ft.NominalGlyph(ru); ok {
				al = append(al, ru)
			}
		}
		if len(al) < 2 || r.Expired() {
			continue
		}
		al = append(al, 0x200D, 0x200C, 0x25CC, ' ')
		r.Count("script_packs_applied", 1)
		packLen := maxLen
		if packLen < 2 {
			packLen = 2
		}
		if len(sf.file.Data) > 64<<10 && len(sf.file.Data) < 4<<20 && packLen < 3 {
			packLen = 3 // real text fonts: sequences like base + mark + mark need three runes
		}
		enumTexts(al, 1, packLen, func(idx int, t []rune) bool {
			if r.Expired() {
				return false
			}
			n := len(t)
			base := shCase{File: name, Face: sf.idx, Text: t, Start: 0, End: n, Script: pk.script, Size: 16 << 6}
			for d := 0; d < 6; d++ {
				if e.prop == "C12" && d >= 4 && n > 2 {
					continue
				}
				c := base
				c.Dir = d
				e.shape(&c)
			}
			if e.prop == "C12" {
				return true
			}
			if n >= 2 {
				for d := 0; d < 2; d++ {
					c := base
					c.Start, c.Dir = 1, d
					e.shape(&c)
					c.Start, c.End = 0, n-1
					e.shape(&c)
				}
			}
			for _, fl := range []int{0, int(harfbuzz.Bot | harfbuzz.Eot), int(harfbuzz.RemoveDefaultIgnorables), int(harfbuzz.PreserveDefaultIgnorables)} {
				for lv := 0; lv < 3; lv++ {
					for d := 0; d < 2; d++ {
						c := base
						c.API, c.Flags, c.Level, c.Dir = 1, fl, lv, d
						e.shape(&c)
					}
				}
			}
			return true
		})
	}
	// threshold inputs: the shapers hold fixed-size scratch areas and limits (32 combining marks per run of marks,
	// 5 runes of context); strings around these sizes, for every script pack whether the font covers it or not
	// (the complex shaper is chosen by the script, the glyphs may all be .notdef)
	if e.prop == "C01" && len(sf.file.Data) < 4<<20 {
		for _, t := range shThresholdTexts() {
			if r.Expired() {
				break
			}
			n := len(t.text)
			base := shCase{File: name, Face: sf.idx, Text: t.text, Start: 0, End: n, Script: t.script, Size: 16 << 6}
			for d := 0; d < 2; d++ {
				c := base
				c.Dir = d
				e.shape(&c)
				c.API = 1
				e.shape(&c)
				c.Level = 1
				e.shape(&c)
			}
			// a one-rune run with more than 5 runes of context on both sides, and the middle third
			c := base
			c.Start, c.End = n/2, n/2+1
			e.shape(&c)
			c.API = 1
			e.shape(&c)
			c.Start, c.End = n/3, 2*n/3
			e.shape(&c)
		}
		r.Count("threshold_texts", 1)
	}
	r.Count("faces", 1)
}

// shMonotoneClass narrows the key of a monotonicity violation to the one class seen on the unchanged tree (and in
// libharfbuzz 6.0.0): a complex-shaper script shaped against its native direction, with a default ignorable in the run
func shMonotoneClass(c *shCase, rtl bool) string {
	sc := parseScript(c.Script)
	hasDI := false
	for _, r := range c.Text {
		if c18isDI(r) {
			hasDI = true
			break
		}
	}
	if !hasDI {
		return ""
	}
	nonNative := false
	switch c.Dir {
	case 0, 1:
		nonNative = rtl != c18nativeRTL(sc)
	case 3, 5: // HarfBuzz: the native vertical direction is top-to-bottom for every script; bottom-to-top reverses the buffer first
		nonNative = true
	}
	if nonNative {
		return ":non-native-direction-with-default-ignorable"
	}
	// native direction: only harfbuzz.Buffer.Shape with cluster level 1 (the default ignorable stays in the buffer, kept by
	// PreserveDefaultIgnorables or replaced by an invisible glyph, and the Indic reordering around it merges no clusters)
	if c.API == 1 && c.Level == int(harfbuzz.MonotoneCharacters) {
		switch cl := shaperClass(&shFont{}, sc); cl {
		case "indic", "khmer", "myanmar", "use-or-default":
			return ":native-direction:level1-with-default-ignorable:" + cl
		}
	}
	return ""
}

type shLongText struct {
	script string
	text   []rune
}

var shThresholdCache []shLongText

// shThresholdTexts: for every script pack, base + k x mark for k around the 32-mark limit (one mark repeated, two marks
// alternating), and the pack repeated to 13 and 70 runes
func shThresholdTexts() []shLongText {
	if shThresholdCache != nil {
		return shThresholdCache
	}
	var out []shLongText
	packs := append([]shPack{{"Arab", []rune{0x0628, 0x0654, 0x0655, 0x06DC, 0x064E}}, {"Syrc", []rune{0x0712, 0x0730, 0x0654}}}, shPacks...)
	for _, pk := range packs {
		var base rune
		var marks []rune
		for _, ru := range pk.runes {
			if unicode.Is(unicode.Mn, ru) {
				marks = append(marks, ru)
			} else if base == 0 {
				base = ru
			}
		}
		if base == 0 {
			continue
		}
		for i, m := range marks {
			if i >= 3 {
				break
			}
			for _, k := range []int{31, 32, 33, 40} {
				t := []rune{base}
				for j := 0; j < k; j++ {
					t = append(t, m)
				}
				out = append(out, shLongText{pk.script, append(t, base)})
			}
			if i+1 < len(marks) {
				t := []rune{base}
				for j := 0; j < 34; j++ {
					t = append(t, m, marks[i+1])
				}
				out = append(out, shLongText{pk.script, t})
			}
		}
		for _, n := range []int{13, 70} {
			var t []rune
			for j := 0; j < n; j++ {
				t = append(t, pk.runes[j%len(pk.runes)])
			}
			out = append(out, shLongText{pk.script, t})
		}
		// one very long syllable / cluster: (consonant + virama-like second rune of the pack) x k + consonant + last rune of the
		// pack, around the 127- and 255-glyph limits of the byte-sized bookkeeping of the syllabic shapers
		if len(pk.runes) >= 3 {
			for _, k := range []int{63, 64, 127, 128, 130} {
				var t []rune
				for j := 0; j < k; j++ {
					t = append(t, pk.runes[0], pk.runes[1])
				}
				t = append(t, pk.runes[0], pk.runes[len(pk.runes)-1])
				out = append(out, shLongText{pk.script, t})
			}
		}
	}
	shThresholdCache = out
	return out
}

// ---- driver -------------------------------------------------------------------------------------------

func shShards(tier string) []string {
	var s []string
	for i := range corpus.Files() {
		s = append(s, strconv.Itoa(i))
	}
	return s
}

// tier parameters: (font classes k, universal count, max length) by file size
func shParams(tier string, size int) (k, nu, maxLen int, full bool) {
	if tier == "thorough" {
		switch {
		case size > 4<<20:
			return 4, 8, 2, false
		case size > 64<<10:
			return 6, 12, 3, true
		}
		return 6, 12, 3, true
	}
	switch {
	case size > 4<<20:
		return 3, 5, 1, false
	case size > 64<<10:
		return 4, 6, 2, false
	}
	return 4, 8, 2, false
}

func shRun(prop string) func(tier, shard string, r *mc.Reporter) {
	return func(tier, shard string, r *mc.Reporter) {
		i, _ := strconv.Atoi(shard)
		f := &corpus.Files()[i]
		k, nu, maxLen, full := shParams(tier, len(f.Data))
		e := &shEnv{r: r, prop: prop}
		if prop == "C12" {
			e.shaper.SetFontCacheSize(4) // geometry must not depend on what the shaper keeps between calls
		}
		for _, sf := range loadShFonts(f, k, nu) {
			if r.Expired() {
				break
			}
			e.font(sf, maxLen, full)
		}
		if r.Expired() {
			r.Incomplete("deadline in " + f.Name)
		}
	}
}

func shReplay(prop string) func(raw json.RawMessage, r *mc.Reporter) {
	return func(raw json.RawMessage, r *mc.Reporter) {
		var c shCase
		if json.Unmarshal(raw, &c) != nil || c.File == "" {
			// a worker death: {"journal": "...", "shard": "i"}: re-run the shard in process
			var j struct{ Journal, Shard string }
			json.Unmarshal(raw, &j)
			fmt.Println("journalled case:", j.Journal, "- re-running shard", j.Shard)
			if j.Shard != "" {
				shRun(prop)("quick", j.Shard, r)
			}
			return
		}
		f := corpus.Get(c.File)
		if f == nil {
			return
		}
		e := &shEnv{r: r, prop: prop}
		for _, sf := range loadShFonts(f, 1, 1) {
			if sf.idx != c.Face {
				continue
			}
			e.sf = sf
			e.face = font.NewFace(sf.ft)
			e.buf = harfbuzz.NewBuffer()
			e.hbFont = harfbuzz.NewFont(e.face)
			e.shape(&c)
			// explanation for the reader of a replay
			func() {
				defer func() {
					if p := recover(); p != nil {
						fmt.Println("panic:", p)
					}
				}()
				if c.API == 1 {
					for i := range e.buf.Info {
						fmt.Printf(" glyph %d cluster %d mask %x pos %+v\n", e.buf.Info[i].Glyph, e.buf.Info[i].Cluster, e.buf.Info[i].Mask, e.buf.Pos[i])
					}
				} else {
					out := e.shaper.Shape(e.input(&c))
					fmt.Printf(" Output runes=%+v advance=%v\n", out.Runes, out.Advance)
					for _, g := range out.Glyphs {
						fmt.Printf("  %+v\n", g)
					}
				}
			}()
		}
	}
}

var _ = bytes.NewReader
var _ = unicode.Mn

func init() {
	Register(&mc.Check{
		ID: "C01", Level: "exploration",
		Rule: "every corpus face x every string up to the tier's length over a font-derived alphabet (one rune per (script, general category, set of GSUB/GPOS lookups covering the nominal glyph) class, the k classes taking part in most lookups, plus universal troublemakers SPACE, ZWJ, ZWNJ, U+0301, SHY, CGJ, U+25CC, LF, an unassigned code point, VS16, fraction slash, digit) " +
			"x {whole text in 6 directions incl. sideways; every sub-run with context in LTR/RTL incl. empty runs; reversed / out-of-text / negative bounds; 8 script tags incl. mismatching complex shapers; sizes 0, 1, 16.5, 4096; feature lists; language; harfbuzz.Buffer.Shape with 7 flag values x 3 cluster levels x LTR/RTL}; plus, for each of 13 complex scripts whose category representatives the face maps (Hangul jamo/syllables/tone marks, Arabic, Hebrew, Devanagari, Bengali, Tamil, Malayalam, Thai, Khmer, Myanmar, Mongolian, Tibetan, Sinhala), every string over that script pack + ZWJ/ZWNJ/U+25CC/SPACE with the script tag set, both API levels. " +
			"Laws: no panic (worker death and watchdog are attributed to the journalled case), output size budget, reported rune range, clusters inside the run, monotone, equal counts per cluster, rune counts sum, len(Info)==len(Pos). Non-trivial = glyph count differs from rune count",
		Assumptions: []string{"the alphabet is a heuristic quotient: the claim is 'all strings over this alphabet', not 'all strings'", "axes are crossed with the string axis, not with each other"},
		Shards:      shShards, Run: shRun("C01"), Replay: shReplay("C01"),
		Watchdog: 0, MemLimit: 6 << 30,
		Bounds: map[string]string{"quick": "faces <= 64 KiB: 4 font classes + 8 universal, length <= 2; larger faces: 4+6, length <= 2; > 4 MiB: 3+5, length 1", "thorough": "6 font classes + 12 universal, length <= 3 (files > 4 MiB: 4+8, length <= 2)"},
	})
}
