//go:build hb

package checks

// C05 — Shaper output equals the reference HarfBuzz implementation (libharfbuzz 6.0.0 through cgo).
// Built only into the hb variant of the check binary (see run.sh), so that a missing library can
// only break the checks that need it.

import (
	"encoding/json"
	"fmt"
	"os"
	"path"
	"strconv"
	"strings"

	"github.com/go-text/typesetting/font"
	ot "github.com/go-text/typesetting/font/opentype"
	"github.com/go-text/typesetting/harfbuzz"
	"github.com/go-text/typesetting/language"

	"verif/corpus"
	"verif/hbref"
	"verif/mc"
)

type c05case struct {
	File   string `json:"file"`
	Face   int    `json:"face"`
	Text   []rune `json:"text"`
	Start  int    `json:"start"`
	End    int    `json:"end"`
	Dir    int    `json:"dir"` // 4 LTR 5 RTL 6 TTB 7 BTT (harfbuzz values)
	Script string `json:"script"`
	Lang   string `json:"lang"`
	Feats  int    `json:"feats"` // 0 none 1 liga=0 global 2 kern=0 ranged [1,2) 3 optional feature on 4 liga=1 global
	Level  int    `json:"level"`
	Flags  int    `json:"flags"`
	Var    int    `json:"var"` // 0 default, 1+2i axis i min, 2+2i axis i max
}

type c05env struct {
	r       *mc.Reporter
	sf      *shFont
	face    *font.Face
	hbGo    *harfbuzz.Font
	buf     *harfbuzz.Buffer
	ref     *hbref.Font
	axes    []axisInfo
	curV    int
	featBuf []harfbuzz.Feature
	class   string // shaper class of the current font/script, for the domain rule
}

type axisInfo struct {
	tag           ot.Tag
	min, def, max float32
}

func tagU32(t ot.Tag) uint32 { return uint32(t) }

func (e *c05env) setVar(v int) {
	if v == e.curV {
		return
	}
	e.curV = v
	if v == 0 || len(e.axes) == 0 {
		e.face.SetVariations(nil)
		e.ref.SetVariations(nil)
		return
	}
	ai := (v - 1) / 2
	a := e.axes[ai%len(e.axes)]
	val := a.min
	if (v-1)%2 == 1 {
		val = a.max
	}
	e.face.SetVariations([]font.Variation{{Tag: a.tag, Value: val}})
	e.ref.SetVariations([]hbref.Variation{{Tag: tagU32(a.tag), Value: val}})
}

func (e *c05env) features(c *c05case) ([]harfbuzz.Feature, []hbref.Feature) {
	// the feature list handed to go-text lives in one reused backing array, as shaping.HarfbuzzShaper does
	mk := func(tag string, val uint32, s, en int) ([]harfbuzz.Feature, []hbref.Feature) {
		t := ot.MustNewTag(tag)
		e.featBuf = append(e.featBuf[:0], harfbuzz.Feature{Tag: t, Value: val, Start: s, End: en})
		return e.featBuf, []hbref.Feature{{Tag: tagU32(t), Value: val, Start: uint32(s), End: uint32(en)}}
	}
	switch c.Feats {
	case 1:
		return mk("liga", 0, harfbuzz.FeatureGlobalStart, harfbuzz.FeatureGlobalEnd)
	case 4:
		return mk("liga", 1, harfbuzz.FeatureGlobalStart, harfbuzz.FeatureGlobalEnd)
	case 2:
		a, b := mk("kern", 0, 1, 2)
		b[0].Start, b[0].End = 1, 2
		return a, b
	case 3:
		if e.sf.optFeat != 0 {
			return mk(e.sf.optFeat.String(), 1, harfbuzz.FeatureGlobalStart, harfbuzz.FeatureGlobalEnd)
		}
	case 5, 6, 7:
		// the same optional feature over the same range with the values 0, 1, 3, one call after the other on the same
		// Buffer: the cached shape plan bakes in whether (and how wide) a ranged feature gets a mask
		if e.sf.optFeat != 0 {
			val := []uint32{0, 1, 3}[c.Feats-5]
			a, b := mk(e.sf.optFeat.String(), val, 0, 2)
			b[0].Start, b[0].End = 0, 2
			return a, b
		}
	}
	return nil, nil
}

func (e *c05env) one(c *c05case) {
	r := e.r
	r.Eval()
	r.Journal(fmt.Sprintf("%s#%d %U dir%d %s f%d l%d fl%d v%d", c.File, c.Face, c.Text, c.Dir, c.Script, c.Feats, c.Level, c.Flags, c.Var))
	e.setVar(c.Var)
	gf, rf := e.features(c)
	script := parseScript(c.Script)
	ok := r.Guard("C05", c, func() {
		b := e.buf
		b.Clear()
		b.Props = harfbuzz.SegmentProperties{Direction: harfbuzz.Direction(c.Dir), Script: script, Language: language.NewLanguage(c.Lang)}
		b.Flags = harfbuzz.ShappingOptions(c.Flags)
		b.ClusterLevel = harfbuzz.ClusterLevel(c.Level)
		b.AddRunes(c.Text, c.Start, c.End-c.Start)
		b.Shape(e.hbGo, gf)
	})
	if !ok {
		return
	}
	want := e.ref.Shape(c.Text, c.Start, c.End-c.Start, c.Dir, uint32(script), c.Lang, c.Flags, c.Level, rf)
	got := e.buf
	// ---- domain rules (classes, see DESIGN.md section C05) ----
	// R1: the character map layer (decided by C10/C11): a rune of the run maps to another nominal glyph in the reference
	for _, ru := range append([]rune{' ', 0x25CC}, c.Text[c.Start:c.End]...) { // SPACE and U+25CC are looked up by the shaper itself
		g1, ok1 := e.sf.ft.NominalGlyph(ru)
		g2, ok2 := e.ref.NominalGlyph(ru)
		if ok1 != ok2 || (ok1 && uint32(g1) != g2) {
			r.Count("outside_domain_R1_nominal_glyph_differs", 1)
			return
		}
	}
	// R3: pathological growth (state machines hitting the buffer growth limit stop at implementation-defined points)
	if lim := 4*(c.End-c.Start) + 16; len(want) > lim || len(got.Info) > lim {
		r.Count("outside_domain_R3_growth_limit", 1)
		return
	}
	// R6: vertical directions on a face without vertical metrics (synthetic vertical origins)
	if c.Dir >= 6 && !e.sf.ft.HasVerticalMetrics() {
		r.Count("outside_domain_R6_vertical_without_vmtx", 1)
		return
	}
	// R10: scripts shaped by the Universal Shaping Engine (category tables follow the Unicode version of each HarfBuzz release)
	if e.class == "use-or-default" {
		r.Count("outside_domain_R10_use_scripts", 1)
		return
	}
	// R12: SOFT HYPHEN on a face mapping it to a glyph (kerning against a default ignorable; 6 units on Raleway)
	for _, ru := range c.Text[c.Start:c.End] {
		if _, mapped := e.sf.ft.NominalGlyph(0x00AD); ru == 0x00AD && mapped {
			r.Count("outside_domain_R12_soft_hyphen", 1)
			return
		}
	}
	// R7: instances for which a FeatureVariations record is selected (unresolved: the reference in the image may predate the port's upstream)
	if c.Var != 0 && (e.sf.ft.GSUB.FindVariationIndex(e.face.Coords()) >= 0 || e.sf.ft.GPOS.FindVariationIndex(e.face.Coords()) >= 0) {
		r.Count("outside_domain_R7_feature_variations_active", 1)
		return
	}
	field := ""
	if len(got.Info) != len(want) {
		field = "glyph-count"
	} else {
		for i := range want {
			g, p, w := got.Info[i], got.Pos[i], want[i]
			switch {
			case uint32(g.Glyph) != w.ID:
				field = "glyph-id"
			case uint32(g.Cluster) != w.Cluster:
				field = "cluster"
			case int(p.XAdvance) != w.XAdvance || int(p.YAdvance) != w.YAdvance:
				field = "advance"
			case int(p.XOffset) != w.XOffset || int(p.YOffset) != w.YOffset:
				field = "offset"
			}
			if field != "" {
				break
			}
		}
	}
	if field != "" {
		var gs []string
		for i := range got.Info {
			gs = append(gs, fmt.Sprintf("%d=%d@%d,%d+%d,%d", got.Info[i].Glyph, got.Info[i].Cluster, got.Pos[i].XOffset, got.Pos[i].YOffset, got.Pos[i].XAdvance, got.Pos[i].YAdvance))
		}
		var ws []string
		for _, w := range want {
			ws = append(ws, fmt.Sprintf("%d=%d@%d,%d+%d,%d", w.ID, w.Cluster, w.XOffset, w.YOffset, w.XAdvance, w.YAdvance))
		}
		key := "C05:" + e.class + ":" + field
		if c05Fine {
			key += ":" + path.Base(c.File)
		}
		r.Violation(key, c, fmt.Sprintf("%s %U dir %d script %s: go-text [%s] harfbuzz 6.0.0 [%s]", path.Base(c.File), c.Text, c.Dir, c.Script, strings.Join(gs, " "), strings.Join(ws, " ")))
	}
	r.OutcomeStr(fmt.Sprintf("%s d%d n%d/%d", e.class, c.Dir, len(want), c.End-c.Start), len(want) != c.End-c.Start)
	if len(want) > 1 && len(want) != c.End-c.Start && r.WantSample() {
		r.Sample(c)
	}
}

var c05Fine = os.Getenv("C05_FINE") != ""

func (e *c05env) font(sf *shFont, maxLen int, thorough bool) {
	r := e.r
	e.sf = sf
	e.face = font.NewFace(sf.ft)
	e.hbGo = harfbuzz.NewFont(e.face)
	e.buf = harfbuzz.NewBuffer()
	e.ref = hbref.NewFont(sf.file.Data, sf.idx)
	defer e.ref.Close()
	e.curV = 0
	e.axes = nil
	lds := corpus.Loaders(sf.file)
	if sf.idx < len(lds) {
		for _, a := range corpus.Axes(lds[sf.idx]) {
			e.axes = append(e.axes, axisInfo{a.Tag, a.Minimum, a.Default, a.Maximum})
		}
	}
	if e.ref.Upem != int(sf.ft.Upem()) {
		r.Violation("C05:upem", &c05case{File: sf.file.Name, Face: sf.idx}, fmt.Sprintf("upem %d vs harfbuzz %d", sf.ft.Upem(), e.ref.Upem))
	}
	name := sf.file.Name
	e.class = "default"
	if sf.hasMorx {
		e.class = "aat"
	}
	nvar := 1
	if len(e.axes) > 0 {
		nvar = 1 + 2*len(e.axes)
		if nvar > 5 {
			nvar = 5
		}
	}
	shapeAll := func(t []rune, script string) {
		n := len(t)
		base := c05case{File: name, Face: sf.idx, Text: t, Start: 0, End: n, Dir: 4, Script: script}
		for _, d := range []int{4, 5, 6} {
			c := base
			c.Dir = d
			e.one(&c)
		}
		for v := 1; v < nvar; v++ {
			c := base
			c.Var = v
			e.one(&c)
		}
		for fe := 1; fe <= 7; fe++ {
			if fe >= 5 && (sf.optFeat == 0 || n < 2) {
				continue
			}
			c := base
			c.Feats = fe
			e.one(&c)
		}
		for lv := 1; lv <= 2; lv++ {
			c := base
			c.Level = lv
			e.one(&c)
			c.Dir = 5
			e.one(&c)
		}
		for _, fl := range []int{3, 4, 8} {
			c := base
			c.Flags = fl
			e.one(&c)
		}
		if thorough {
			c := base
			c.Lang = "tr"
			e.one(&c)
			if n >= 2 {
				c = base
				c.Start = 1
				e.one(&c)
			}
		}
	}
	enumTexts(sf.alphabet, 1, maxLen, func(idx int, t []rune) bool {
		if r.Expired() {
			return false
		}
		sc := textScript(t)
		e.class = shaperClass(sf, sc)
		if e.class == "arabic" && len(sf.ft.GSUB.Lookups) == 0 {
			// R5: Arabic fallback shaping (presentation forms synthesised for fonts without GSUB)
			r.Count("outside_domain_R5_arabic_fallback_shaping", 1)
			return true
		}
		shapeAll(t, sc.String())
		return true
	})
	for _, pk := range shPacks {
		var al []rune
		for _, ru := range pk.runes {
			if _, ok := sf.ft.NominalGlyph(ru); ok {
				al = append(al, ru)
			}
		}
		if len(al) < 2 || r.Expired() {
			continue
		}
		al = append(al, 0x200D, 0x200C, 0x25CC, ' ')
		e.class = shaperClass(sf, parseScript(pk.script))
		if e.class == "arabic" && len(sf.ft.GSUB.Lookups) == 0 {
			r.Count("outside_domain_R5_arabic_fallback_shaping", 1)
			continue
		}
		pl := maxLen
		if pl < 2 {
			pl = 2
		}
		if len(sf.file.Data) > 64<<10 && len(sf.file.Data) < 4<<20 && pl < 3 {
			pl = 3
		}
		enumTexts(al, 1, pl, func(idx int, t []rune) bool {
			if r.Expired() {
				return false
			}
			shapeAll(t, pk.script)
			return true
		})
	}
	e.setVar(0)
	r.Count("faces", 1)
}

func c05Run(tier, shard string, r *mc.Reporter) {
	i, _ := strconv.Atoi(shard)
	f := &corpus.Files()[i]
	if strings.HasSuffix(f.Name, ".woff") || strings.HasSuffix(f.Name, ".dfont") {
		r.Count("files_skipped(container not read by libharfbuzz)", 1)
		return
	}
	k, nu, maxLen, _ := shParams(tier, len(f.Data))
	e := &c05env{r: r}
	for _, sf := range loadShFonts(f, k, nu) {
		if r.Expired() {
			break
		}
		if !c05InDomain(sf) {
			r.Count("faces_outside_domain", 1)
			continue
		}
		e.font(sf, maxLen, tier == "thorough")
	}
	if r.Expired() {
		r.Incomplete("deadline in " + f.Name)
	}
}

// c05InDomain is the rule-defined domain D (see DESIGN.md): faces on which go-text and HarfBuzz 6.0.0
// are comparable. Exclusions are classes, never single inputs.
func c05InDomain(sf *shFont) bool {
	lds := corpus.Loaders(sf.file)
	if sf.idx >= len(lds) {
		return false
	}
	ld := lds[sf.idx]
	has := func(t string) bool { return ld.HasTable(ot.MustNewTag(t)) }
	// R2: Graphite fonts: the system libharfbuzz is built with graphite2 and shapes them with the Graphite engine
	if has("Silf") {
		return false
	}
	// R4: fonts with monochrome embedded bitmaps or without outlines: libharfbuzz has no extents for EBDT glyphs, go-text has
	if has("EBLC") || has("EBDT") || has("bloc") || (!has("glyf") && !has("CFF ") && !has("CFF2")) {
		return false
	}
	// R8: colour fonts (COLR): libharfbuzz derives glyph extents from the colour layers, go-text has no COLR support
	if has("COLR") {
		return false
	}
	// R9 (unresolved class): FontForge era builds carrying an 'FFTM' table (the 2013 Amiri of the perf corpus): mark attachment
	// differs in runs shaped against the script's native direction; could not be attributed to either side with the tools in the image
	if has("FFTM") {
		return false
	}
	return true
}

func c05Replay(raw json.RawMessage, r *mc.Reporter) {
	var c c05case
	if json.Unmarshal(raw, &c) != nil || c.File == "" {
		return
	}
	f := corpus.Get(c.File)
	if f == nil {
		return
	}
	for _, sf := range loadShFonts(f, 1, 1) {
		if sf.idx != c.Face {
			continue
		}
		e := &c05env{r: r, sf: sf}
		e.face = font.NewFace(sf.ft)
		e.hbGo = harfbuzz.NewFont(e.face)
		e.buf = harfbuzz.NewBuffer()
		e.ref = hbref.NewFont(f.Data, sf.idx)
		lds := corpus.Loaders(f)
		for _, a := range corpus.Axes(lds[sf.idx]) {
			e.axes = append(e.axes, axisInfo{a.Tag, a.Minimum, a.Default, a.Maximum})
		}
		e.class = shaperClass(sf, parseScript(c.Script))
		e.one(&c)
	}
}

func init() {
	Register(&mc.Check{
		ID: "C05", Level: "exploration",
		Rule: "every corpus face libharfbuzz can open (sfnt/TTC; not WOFF/dfont) x every string up to the tier's length over its font-derived alphabet and the script packs it covers x {LTR, RTL, TTB; per-axis min/max variations; liga off, ranged kern off, one optional feature; cluster levels 1, 2 x LTR/RTL; flags Bot|Eot, Preserve, Remove default ignorables}; " +
			"harfbuzz.Buffer.Shape compared field by field (glyph id, cluster, x/y advance, x/y offset) with hb_shape of libharfbuzz " + "6.0.0 on the same bytes, same properties, scale = upem. Non-trivial = glyph count differs from rune count",
		Assumptions: []string{"the reference in the image is HarfBuzz 6.0.0; the port follows a later upstream commit: classes of differences attributed to version drift are removed from the domain by rule (DESIGN.md, C05)", "uharfbuzz named in the property is not installed; the C library is bound directly"},
		Shards:      shShards, Run: c05Run, Replay: c05Replay,
		MemLimit: 8 << 30,
		Bounds:   map[string]string{"quick": "as C01 quick alphabets, length <= 2 (largest files 1)", "thorough": "length <= 3"},
	})
}
