package checks

// C18 — glyphs not flagged unsafe-to-break are safe cut points.
//
// Enumeration (E1): per corpus face without AAT substitution
//   (a) every string up to the tier's length over the font-derived alphabet and the script packs, and
//   (b) rule witnesses: for every contextual rule of the font's own GSUB/GPOS lookups (ligatures, context and
//       chained context rules of the three formats incl. rules without nested lookups, reverse chaining, kerning
//       pairs grouped by the shape of their value records incl. device/variation-only records, cursive and mark
//       attachment) the rune sequences that spell the rule (backtrack + input + lookahead) through the reverse
//       character map, alone and embedded in neutral context,
// x {native direction, opposite direction} x cluster levels {0, 1} x {no feature, liga off, kern off, first
// optional feature} x {default instance, per-axis min/max}.
// For every shaped result: every subset of the safe boundaries (all subsets up to 3 boundaries, else every single
// cut and the all-cuts decomposition upstream uses); the pieces are shaped through the public
// Buffer.AddRunes(text, start, length) (neighbouring text as context, Bot/Eot cleared at interior ends) and
// concatenated in visual order. Oracle: glyph ids, clusters, advances and offsets equal the whole-text shaping;
// the defined glyph flags are uniform within a cluster.

import (
	"encoding/json"
	"fmt"
	"sort"
	"strconv"
	"strings"
	"unicode"

	"verif/corpus"
	"verif/mc"

	"github.com/go-text/typesetting/font"
	ot "github.com/go-text/typesetting/font/opentype"
	"github.com/go-text/typesetting/font/opentype/tables"
	"github.com/go-text/typesetting/harfbuzz"
	"github.com/go-text/typesetting/language"
	"golang.org/x/text/unicode/norm"
)

type c18case struct {
	File   string `json:"file"`
	Face   int    `json:"face"`
	Text   []rune `json:"text"`
	RTL    bool   `json:"rtl"`
	Script string `json:"script"`
	Level  int    `json:"level"`
	Feats  int    `json:"feats"`
	Var    int    `json:"var"`
	Cuts   []int  `json:"cuts,omitempty"`
	Origin string `json:"origin"`
}

// ---- rule witnesses -----------------------------------------------------------------------------

type c18wit struct {
	text   []rune
	origin string // table:lookup type
}

type c18gen struct {
	ft        *font.Font
	rev       map[tables.GlyphID][]rune
	direct    map[tables.GlyphID]bool
	mapped    []tables.GlyphID // glyphs having a rune, ascending
	seen      map[string]bool
	out       []c18wit
	perLookup int // cap of witnesses per lookup
	curCount  int
	noWitness int
	capped    int
}

func newC18gen(ft *font.Font, perLookup int) *c18gen {
	g := &c18gen{ft: ft, rev: map[tables.GlyphID][]rune{}, direct: map[tables.GlyphID]bool{}, seen: map[string]bool{}, perLookup: perLookup}
	it := ft.Cmap.Iter()
	n := 0
	for it.Next() {
		r, gid := it.Char()
		n++
		if n > 70000 {
			break
		}
		if r < 0x20 || gid == 0 || (r >= 0xFE00 && r <= 0xFE0F) || (r >= 0xE0100 && r <= 0xE01EF) || r == 0xFFFF {
			continue
		}
		if old, ok := g.rev[tables.GlyphID(gid)]; !ok || r < old[0] {
			g.rev[tables.GlyphID(gid)] = []rune{r}
			g.direct[tables.GlyphID(gid)] = true
		}
	}
	// glyphs only reachable through substitutions of mapped glyphs (three rounds): single, multiple, ligature
	learn := func(b tables.GlyphID, rs []rune) {
		if _, has := g.rev[b]; !has && len(rs) > 0 && len(rs) <= 6 {
			g.rev[b] = rs
		}
	}
	for round := 0; round < 3; round++ {
		for _, lk := range ft.GSUB.Lookups {
			for _, st := range lk.Subtables {
				switch ss := st.(type) {
				case tables.SingleSubs:
					switch d := ss.Data.(type) {
					case tables.SingleSubstData1:
						for _, a := range c18covGlyphs(d.Coverage, 1<<16) {
							learn(tables.GlyphID(int(a)+int(d.DeltaGlyphID)), g.rev[a])
						}
					case tables.SingleSubstData2:
						for _, a := range c18covGlyphs(d.Coverage, 1<<16) {
							if i, ok := d.Coverage.Index(a); ok && i < len(d.SubstituteGlyphIDs) {
								learn(d.SubstituteGlyphIDs[i], g.rev[a])
							}
						}
					}
				case tables.MultipleSubs:
					for _, a := range c18covGlyphs(ss.Coverage, 1<<16) {
						if i, ok := ss.Coverage.Index(a); ok && i < len(ss.Sequences) {
							for _, b := range ss.Sequences[i].SubstituteGlyphIDs {
								learn(b, g.rev[a])
							}
						}
					}
				case tables.LigatureSubs:
					for _, a := range c18covGlyphs(ss.Coverage, 1<<16) {
						i, ok := ss.Coverage.Index(a)
						if !ok || i >= len(ss.LigatureSets) || g.rev[a] == nil {
							continue
						}
						for _, lig := range ss.LigatureSets[i].Ligatures {
							rs := append([]rune{}, g.rev[a]...)
							for _, comp := range lig.ComponentGlyphIDs {
								if g.rev[comp] == nil {
									rs = nil
									break
								}
								rs = append(rs, g.rev[comp]...)
							}
							learn(lig.LigatureGlyph, rs)
						}
					}
				}
			}
		}
	}
	for gid := range g.rev {
		g.mapped = append(g.mapped, gid)
	}
	sort.Slice(g.mapped, func(i, j int) bool {
		if a, b := g.direct[g.mapped[i]], g.direct[g.mapped[j]]; a != b {
			return a
		}
		return g.mapped[i] < g.mapped[j]
	})
	return g
}

func c18covGlyphs(cov tables.Coverage, max int) []tables.GlyphID {
	var out []tables.GlyphID
	switch c := cov.(type) {
	case tables.Coverage1:
		for _, g := range c.Glyphs {
			if len(out) >= max {
				break
			}
			out = append(out, g)
		}
	case tables.Coverage2:
		for _, rg := range c.Ranges {
			for g := int(rg.StartGlyphID); g <= int(rg.EndGlyphID) && len(out) < max; g++ {
				out = append(out, tables.GlyphID(g))
			}
		}
	}
	return out
}

// covReps: the first k glyphs of the coverage that a rune reaches
func (g *c18gen) covReps(cov tables.Coverage, k int) []tables.GlyphID {
	var out []tables.GlyphID
	if cov == nil {
		return nil
	}
	for _, gid := range c18covGlyphs(cov, 1<<16) {
		if _, ok := g.rev[gid]; ok {
			out = append(out, gid)
			if len(out) >= k {
				break
			}
		}
	}
	return out
}

// classReps: the first k rune-reachable glyphs of the class (class 0: glyphs outside the definition), optionally inside a coverage
func (g *c18gen) classReps(cd tables.ClassDef, class uint16, k int, within tables.Coverage) []tables.GlyphID {
	var out []tables.GlyphID
	if cd == nil {
		return nil
	}
	for _, gid := range g.mapped {
		c, _ := cd.Class(gid)
		if c != class {
			continue
		}
		if within != nil {
			if _, ok := within.Index(gid); !ok {
				continue
			}
		}
		out = append(out, gid)
		if len(out) >= k {
			break
		}
	}
	return out
}

func one(g tables.GlyphID) []tables.GlyphID { return []tables.GlyphID{g} }

// emit adds the witnesses spelled by seq (a list of alternatives per position): variant v takes alternative v everywhere
func (g *c18gen) emit(seq [][]tables.GlyphID, origin string) {
	if len(seq) == 0 || len(seq) > 12 {
		return
	}
	nv := 1
	for _, alts := range seq {
		if len(alts) == 0 {
			g.noWitness++
			return
		}
		if len(alts) > nv {
			nv = len(alts)
		}
	}
	for v := 0; v < nv; v++ {
		var t []rune
		for _, alts := range seq {
			a := alts[0]
			if v < len(alts) {
				a = alts[v]
			}
			rs, ok := g.rev[a]
			if !ok {
				g.noWitness++
				return
			}
			t = append(t, rs...)
		}
		if len(t) > 14 {
			return
		}
		key := string(t)
		if g.seen[key] {
			continue
		}
		if g.curCount >= g.perLookup {
			g.capped++
			return
		}
		g.seen[key] = true
		g.curCount++
		g.out = append(g.out, c18wit{t, origin})
	}
}

func (g *c18gen) alts(gids []tables.GlyphID) [][]tables.GlyphID {
	out := make([][]tables.GlyphID, len(gids))
	for i, x := range gids {
		out[i] = one(x)
	}
	return out
}

func rev[T any](s []T) []T {
	out := make([]T, len(s))
	for i, x := range s {
		out[len(s)-1-i] = x
	}
	return out
}

func (g *c18gen) context1(sc tables.SequenceContextFormat1, cov tables.Coverage, origin string) {
	for _, first := range c18covGlyphs(cov, 1<<16) {
		i, ok := cov.Index(first)
		if !ok || i >= len(sc.SeqRuleSet) {
			continue
		}
		for _, rule := range sc.SeqRuleSet[i].SeqRule {
			g.emit(append([][]tables.GlyphID{one(first)}, g.alts(rule.InputSequence)...), origin+c18ign(len(rule.SeqLookupRecords)))
		}
	}
}

func c18ign(n int) string {
	if n == 0 {
		return ":no-nested-lookup"
	}
	return ""
}

func (g *c18gen) context2(sc tables.SequenceContextFormat2, cov tables.Coverage, origin string, k int) {
	for c, set := range sc.ClassSeqRuleSet {
		for _, rule := range set.SeqRule {
			seq := [][]tables.GlyphID{g.classReps(sc.ClassDef, uint16(c), k, cov)}
			for _, cl := range rule.InputSequence {
				seq = append(seq, g.classReps(sc.ClassDef, uint16(cl), k, nil))
			}
			g.emit(seq, origin+c18ign(len(rule.SeqLookupRecords)))
		}
	}
}

func (g *c18gen) context3(sc tables.SequenceContextFormat3, origin string, k int) {
	var seq [][]tables.GlyphID
	for _, cov := range sc.Coverages {
		seq = append(seq, g.covReps(cov, k))
	}
	g.emit(seq, origin+c18ign(len(sc.SeqLookupRecords)))
}

func (g *c18gen) chain1(sc tables.ChainedSequenceContextFormat1, cov tables.Coverage, origin string) {
	for _, first := range c18covGlyphs(cov, 1<<16) {
		i, ok := cov.Index(first)
		if !ok || i >= len(sc.ChainedSeqRuleSet) {
			continue
		}
		for _, rule := range sc.ChainedSeqRuleSet[i].ChainedSeqRules {
			seq := g.alts(rev(rule.BacktrackSequence))
			seq = append(seq, one(first))
			seq = append(seq, g.alts(rule.InputSequence)...)
			seq = append(seq, g.alts(rule.LookaheadSequence)...)
			g.emit(seq, origin+c18ign(len(rule.SeqLookupRecords)))
		}
	}
}

func (g *c18gen) chain2(sc tables.ChainedSequenceContextFormat2, cov tables.Coverage, origin string, k int) {
	for c, set := range sc.ChainedClassSeqRuleSet {
		for _, rule := range set.ChainedSeqRules {
			var seq [][]tables.GlyphID
			for _, cl := range rev(rule.BacktrackSequence) {
				seq = append(seq, g.classReps(sc.BacktrackClassDef, uint16(cl), k, nil))
			}
			seq = append(seq, g.classReps(sc.InputClassDef, uint16(c), k, cov))
			for _, cl := range rule.InputSequence {
				seq = append(seq, g.classReps(sc.InputClassDef, uint16(cl), k, nil))
			}
			for _, cl := range rule.LookaheadSequence {
				seq = append(seq, g.classReps(sc.LookaheadClassDef, uint16(cl), k, nil))
			}
			g.emit(seq, origin+c18ign(len(rule.SeqLookupRecords)))
		}
	}
}

func (g *c18gen) chain3(sc tables.ChainedSequenceContextFormat3, origin string, k int) {
	var seq [][]tables.GlyphID
	for _, cov := range rev(sc.BacktrackCoverages) {
		seq = append(seq, g.covReps(cov, k))
	}
	for _, cov := range sc.InputCoverages {
		seq = append(seq, g.covReps(cov, k))
	}
	for _, cov := range sc.LookaheadCoverages {
		seq = append(seq, g.covReps(cov, k))
	}
	g.emit(seq, origin+c18ign(len(sc.SeqLookupRecords)))
}

// valueSig: which fields of a value record are non zero / carry a device or variation index
func valueSig(v tables.ValueRecord) string {
	var b strings.Builder
	flag := func(c byte, nz bool, dev bool) {
		if nz {
			b.WriteByte(c)
		}
		if dev {
			b.WriteByte(c - 'a' + 'A')
		}
	}
	flag('x', v.XPlacement != 0, v.XPlaDevice != nil)
	flag('y', v.YPlacement != 0, v.YPlaDevice != nil)
	flag('a', v.XAdvance != 0, v.XAdvDevice != nil)
	flag('b', v.YAdvance != 0, v.YAdvDevice != nil)
	return b.String()
}

func (g *c18gen) pairs(pp tables.PairPos, origin string, perSig int) {
	sigs := map[string]int{}
	switch d := pp.Data.(type) {
	case tables.PairPosData1:
		firsts := g.covReps(d.Cov(), 400)
		for _, a := range firsts {
			i, ok := d.Cov().Index(a)
			if !ok || i >= len(d.PairSets) {
				continue
			}
			seconds := g.mapped
			if len(seconds) > 600 {
				seconds = seconds[:600]
			}
			for _, b := range seconds {
				rec, ok := d.PairSets[i].FindGlyph(b)
				if !ok {
					continue
				}
				s := valueSig(rec.ValueRecord1) + "|" + valueSig(rec.ValueRecord2)
				if sigs[s] >= perSig {
					continue
				}
				sigs[s]++
				g.emit([][]tables.GlyphID{one(a), one(b)}, origin+":"+s)
			}
		}
	case tables.PairPosData2:
		n1, n2 := d.ClassDef1.Extent(), d.ClassDef2.Extent()
		if n1 > 300 {
			n1 = 300
		}
		if n2 > 300 {
			n2 = 300
		}
		reps2 := make([][]tables.GlyphID, n2)
		for c2 := 0; c2 < n2; c2++ {
			reps2[c2] = g.classReps(d.ClassDef2, uint16(c2), 1, nil)
		}
		for c1 := 0; c1 < n1; c1++ {
			r1 := g.classReps(d.ClassDef1, uint16(c1), 1, d.Cov())
			if len(r1) == 0 {
				continue
			}
			for c2 := 0; c2 < n2; c2++ {
				if len(reps2[c2]) == 0 {
					continue
				}
				var rec tables.Class2Record
				func() {
					defer func() { recover() }()
					rec = d.Record(uint16(c1), uint16(c2))
				}()
				s := valueSig(rec.ValueRecord1) + "|" + valueSig(rec.ValueRecord2)
				if s == "|" || sigs[s] >= perSig {
					continue
				}
				sigs[s]++
				g.emit([][]tables.GlyphID{r1, reps2[c2]}, origin+":"+s)
			}
		}
	}
}

func (g *c18gen) run(k, perSig int) {
	ft := g.ft
	for li, lk := range ft.GSUB.Lookups {
		g.curCount = 0
		for _, st := range lk.Subtables {
			switch s := st.(type) {
			case tables.LigatureSubs:
				for _, first := range g.covReps(s.Coverage, 1<<16) {
					i, ok := s.Coverage.Index(first)
					if !ok || i >= len(s.LigatureSets) {
						continue
					}
					for _, lig := range s.LigatureSets[i].Ligatures {
						g.emit(append([][]tables.GlyphID{one(first)}, g.alts(lig.ComponentGlyphIDs)...), "gsub:ligature")
					}
				}
			case tables.ContextualSubs:
				switch d := s.Data.(type) {
				case tables.ContextualSubs1:
					g.context1(tables.SequenceContextFormat1(d), s.Cov(), "gsub:context1")
				case tables.ContextualSubs2:
					g.context2(tables.SequenceContextFormat2(d), s.Cov(), "gsub:context2", k)
				case tables.ContextualSubs3:
					g.context3(tables.SequenceContextFormat3(d), "gsub:context3", k)
				}
			case tables.ChainedContextualSubs:
				switch d := s.Data.(type) {
				case tables.ChainedContextualSubs1:
					g.chain1(tables.ChainedSequenceContextFormat1(d), s.Cov(), "gsub:chain1")
				case tables.ChainedContextualSubs2:
					g.chain2(tables.ChainedSequenceContextFormat2(d), s.Cov(), "gsub:chain2", k)
				case tables.ChainedContextualSubs3:
					g.chain3(tables.ChainedSequenceContextFormat3(d), "gsub:chain3", k)
				}
			case tables.ReverseChainSingleSubs:
				var seq [][]tables.GlyphID
				for _, cov := range rev(s.BacktrackCoverages) {
					seq = append(seq, g.covReps(cov, k))
				}
				seq = append(seq, g.covReps(s.Cov(), k))
				for _, cov := range s.LookaheadCoverages {
					seq = append(seq, g.covReps(cov, k))
				}
				g.emit(seq, "gsub:reverse-chain")
			}
		}
		_ = li
	}
	for _, lk := range ft.GPOS.Lookups {
		g.curCount = 0
		for _, st := range lk.Subtables {
			switch s := st.(type) {
			case tables.PairPos:
				g.pairs(s, "gpos:pair", perSig)
			case tables.CursivePos:
				reps := g.covReps(s.Cov(), 3)
				for _, a := range reps {
					for _, b := range reps {
						g.emit([][]tables.GlyphID{one(a), one(b)}, "gpos:cursive")
						g.emit([][]tables.GlyphID{one(a), one(b), one(a)}, "gpos:cursive")
					}
				}
			case tables.MarkBasePos:
				bases, marks := g.covReps(s.BaseCoverage, 2), g.covReps(s.Cov(), 2)
				for _, b := range bases {
					for _, m := range marks {
						g.emit([][]tables.GlyphID{one(b), one(m)}, "gpos:mark-base")
						g.emit([][]tables.GlyphID{one(b), one(m), one(m)}, "gpos:mark-base")
						g.emit([][]tables.GlyphID{one(b), one(b), one(m)}, "gpos:mark-base")
					}
				}
			case tables.MarkLigPos:
				ligs, marks := g.covReps(s.LigatureCoverage, 2), g.covReps(s.Cov(), 2)
				for _, b := range ligs {
					for _, m := range marks {
						g.emit([][]tables.GlyphID{one(b), one(m)}, "gpos:mark-lig")
					}
				}
			case tables.MarkMarkPos:
				m1, m2 := g.covReps(s.Cov(), 2), g.covReps(s.Mark2Coverage, 2)
				for _, a := range m2 {
					for _, b := range m1 {
						// preceded by a letter of the font when there is one
						if len(g.mapped) > 0 {
							g.emit([][]tables.GlyphID{one(g.baseLetter()), one(a), one(b)}, "gpos:mark-mark")
						}
						g.emit([][]tables.GlyphID{one(a), one(b)}, "gpos:mark-mark")
					}
				}
			case tables.ContextualPos:
				switch d := s.Data.(type) {
				case tables.ContextualPos1:
					g.context1(tables.SequenceContextFormat1(d), s.Cov(), "gpos:context1")
				case tables.ContextualPos2:
					g.context2(tables.SequenceContextFormat2(d), s.Cov(), "gpos:context2", k)
				case tables.ContextualPos3:
					g.context3(tables.SequenceContextFormat3(d), "gpos:context3", k)
				}
			case tables.ChainedContextualPos:
				switch d := s.Data.(type) {
				case tables.ChainedContextualPos1:
					g.chain1(tables.ChainedSequenceContextFormat1(d), s.Cov(), "gpos:chain1")
				case tables.ChainedContextualPos2:
					g.chain2(tables.ChainedSequenceContextFormat2(d), s.Cov(), "gpos:chain2", k)
				case tables.ChainedContextualPos3:
					g.chain3(tables.ChainedSequenceContextFormat3(d), "gpos:chain3", k)
				}
			}
		}
	}
	// legacy kern table (format 0 pairs): the first pairs with a non zero value
	g.curCount = 0
	for _, st := range ft.Kern {
		if k0, ok := st.Data.(font.Kern0); ok {
			n := 0
			for _, p := range k0 {
				if p.Value != 0 && n < 40 {
					before := len(g.out)
					g.emit([][]tables.GlyphID{one(tables.GlyphID(p.Left)), one(tables.GlyphID(p.Right))}, "kern:pair")
					if len(g.out) > before {
						n++
					}
				}
			}
		}
	}
}

func (g *c18gen) baseLetter() tables.GlyphID {
	for _, gid := range g.mapped {
		r := g.rev[gid][0]
		if g.direct[gid] && r >= 'A' && language.LookupScript(r).Strong() {
			return gid
		}
	}
	return g.mapped[0]
}

// ---- the check ------------------------------------------------------------------------------------

type c18env struct {
	r       *mc.Reporter
	sf      *shFont
	face    *font.Face
	hbFont  *harfbuzz.Font
	buf     *harfbuzz.Buffer
	axes    []font.Variation // (tag, min) and (tag, max) alternately
	curV    int
	featBuf []harfbuzz.Feature
}

type c18glyph struct {
	G          harfbuzz.GID
	Cl         int
	XA, YA     harfbuzz.Position
	XO, YO     harfbuzz.Position
	Flags      harfbuzz.GlyphMask
	flagsKnown bool
}

func (e *c18env) setVar(v int) {
	if v == e.curV {
		return
	}
	e.curV = v
	if v == 0 {
		e.face.SetVariations(nil)
	} else {
		e.face.SetVariations([]font.Variation{e.axes[(v-1)%len(e.axes)]})
	}
	e.hbFont = harfbuzz.NewFont(e.face)
}

func (e *c18env) features(c *c18case) []harfbuzz.Feature {
	mk := func(tag ot.Tag, val uint32) []harfbuzz.Feature {
		e.featBuf = append(e.featBuf[:0], harfbuzz.Feature{Tag: tag, Value: val, Start: harfbuzz.FeatureGlobalStart, End: harfbuzz.FeatureGlobalEnd})
		return e.featBuf
	}
	switch c.Feats {
	case 1:
		return mk(ot.MustNewTag("liga"), 0)
	case 2:
		return mk(ot.MustNewTag("kern"), 0)
	case 3:
		if e.sf.optFeat != 0 {
			return mk(e.sf.optFeat, 1)
		}
	}
	return nil
}

const c18Flags = harfbuzz.GlyphUnsafeToBreak | harfbuzz.GlyphUnsafeToConcat | harfbuzz.GlyphSafeToInsertTatweel

// shapeRange shapes text[start:end] with the rest of the text as context
func (e *c18env) shapeRange(c *c18case, start, end int) ([]c18glyph, bool) {
	b := e.buf
	var out []c18glyph
	ok := e.r.Guard("C18", c, func() {
		b.Clear()
		dir := harfbuzz.LeftToRight
		if c.RTL {
			dir = harfbuzz.RightToLeft
		}
		b.Props = harfbuzz.SegmentProperties{Direction: dir, Script: parseScript(c.Script)}
		fl := harfbuzz.Bot | harfbuzz.Eot
		if start > 0 {
			fl &^= harfbuzz.Bot
		}
		if end < len(c.Text) {
			fl &^= harfbuzz.Eot
		}
		b.Flags = fl
		b.ClusterLevel = harfbuzz.ClusterLevel(c.Level)
		b.AddRunes(c.Text, start, end-start)
		b.Shape(e.hbFont, e.features(c))
		out = make([]c18glyph, len(b.Info))
		for i, in := range b.Info {
			out[i] = c18glyph{G: in.Glyph, Cl: in.Cluster, Flags: in.Mask & c18Flags}
			if i < len(b.Pos) {
				p := b.Pos[i]
				out[i].XA, out[i].YA, out[i].XO, out[i].YO = p.XAdvance, p.YAdvance, p.XOffset, p.YOffset
			}
		}
	})
	return out, ok
}

func sameShape(a, b c18glyph) bool {
	return a.G == b.G && a.Cl == b.Cl && a.XA == b.XA && a.YA == b.YA && a.XO == b.XO && a.YO == b.YO
}

func fmtGlyphs(gs []c18glyph) string {
	var b strings.Builder
	for _, g := range gs {
		fl := ""
		if g.Flags&harfbuzz.GlyphUnsafeToBreak != 0 {
			fl = "#"
		}
		fmt.Fprintf(&b, "%d=%d%s+%d,%d@%d,%d|", g.G, g.Cl, fl, g.XA, g.YA, g.XO, g.YO)
	}
	return b.String()
}

// one shapes the whole text and checks every decomposition at safe boundaries
func (e *c18env) one(c *c18case, class string) {
	r := e.r
	r.Eval()
	r.Journal(fmt.Sprintf("%s#%d %U rtl%v %s lv%d f%d v%d", c.File, c.Face, c.Text, c.RTL, c.Script, c.Level, c.Feats, c.Var))
	e.setVar(c.Var)
	n := len(c.Text)
	whole, ok := e.shapeRange(c, 0, n)
	if !ok || len(whole) == 0 {
		return
	}
	// monotone clusters are the premise
	for i := 1; i < len(whole); i++ {
		if (!c.RTL && whole[i].Cl < whole[i-1].Cl) || (c.RTL && whole[i].Cl > whole[i-1].Cl) {
			r.Count("results_without_monotone_clusters(premise)", 1)
			return
		}
	}
	kind := strings.SplitN(c.Origin, ":", 3)
	okind := kind[0]
	if len(kind) > 1 {
		okind += ":" + kind[1]
	}
	if strings.HasSuffix(c.Origin, ":no-nested-lookup") {
		okind += ":no-nested-lookup"
	}
	// flags uniform within a cluster
	for i := 1; i < len(whole); i++ {
		if whole[i].Cl == whole[i-1].Cl && whole[i].Flags != whole[i-1].Flags {
			r.Violation("C18:flags-not-uniform-in-cluster:"+class, c, fmt.Sprintf("%s %U: glyphs %d and %d of cluster %d carry flags %#x and %#x: %s", c.File, c.Text, i-1, i, whole[i].Cl, whole[i-1].Flags, whole[i].Flags, fmtGlyphs(whole)))
			break
		}
	}
	// safe boundaries (text positions)
	var cuts []int
	for i := 1; i < len(whole); i++ {
		if whole[i].Cl == whole[i-1].Cl {
			continue
		}
		if !c.RTL {
			if whole[i].Flags&harfbuzz.GlyphUnsafeToBreak == 0 {
				cuts = append(cuts, whole[i].Cl)
			}
		} else if whole[i-1].Flags&harfbuzz.GlyphUnsafeToBreak == 0 {
			cuts = append(cuts, whole[i-1].Cl)
		}
	}
	if c.RTL {
		sort.Ints(cuts)
	}
	r.Outcome(uint64(len(cuts))<<8|uint64(len(whole)-n+64), len(cuts) > 0 && len(cuts) < len(whole)-1)
	r.Count("safe_boundaries", int64(len(cuts)))
	r.Count("cluster_boundaries_flagged_unsafe", int64(c18boundaries(whole)-len(cuts)))
	if len(cuts) == 0 {
		return
	}
	if r.WantSample() && len(cuts) < c18boundaries(whole) {
		cc := *c
		cc.Cuts = cuts
		r.Sample(map[string]any{"case": cc, "whole": fmtGlyphs(whole)})
	}
	try := func(sub []int) bool {
		r.Count("decompositions", 1)
		bounds := append(append([]int{0}, sub...), n)
		var parts [][]c18glyph
		for i := 0; i+1 < len(bounds); i++ {
			p, ok := e.shapeRange(c, bounds[i], bounds[i+1])
			if !ok {
				return false
			}
			parts = append(parts, p)
		}
		var cat []c18glyph
		if c.RTL {
			for i := len(parts) - 1; i >= 0; i-- {
				cat = append(cat, parts[i]...)
			}
		} else {
			for _, p := range parts {
				cat = append(cat, p...)
			}
		}
		same := len(cat) == len(whole)
		for i := 0; same && i < len(cat); i++ {
			same = sameShape(cat[i], whole[i])
		}
		if !same {
			cc := *c
			cc.Cuts = sub
			key := "C18:unsafe-cut:" + class + ":native-direction:" + okind
			if c18normalizationCluster(c, cat, whole) {
				// the first differing cluster holds a rune with a canonical decomposition (or a composable pair):
				// the normalizer's whole-buffer shortcuts make its treatment depend on marks elsewhere
				key = "C18:unsafe-cut:" + class + ":native-direction:canonical-composition"
			} else if c18cutBeforeMark(c.Text, sub) {
				// a piece starts with a combining mark or a default ignorable: it is a broken sequence for the complex shapers
				key = "C18:unsafe-cut:" + class + ":native-direction:cut-before-mark-or-default-ignorable"
			} else if e.hasInsertedDottedCircle(c, cat, whole) {
				// a broken syllable: the complex shaper inserted U+25CC, and the cut changes how the invalid sequence is segmented
				key = "C18:unsafe-cut:" + class + ":native-direction:broken-syllable-with-dotted-circle"
			} else if e.sameButIgnorables(c, cat, whole) {
				// only the place (glyph index / cluster) of an invisible default-ignorable glyph differs
				key = "C18:unsafe-cut:" + class + ":native-direction:default-ignorable-placement"
			}
			if sc := parseScript(c.Script); c.RTL != c18nativeRTL(sc) && sc != language.Old_Italic && sc != language.Runic && sc != language.Tifinagh {
				// the buffer is reversed before shaping: one class per complex shaper
				key = "C18:unsafe-cut:" + class + ":non-native-direction"
				if class != "arabic" {
					// every Arabic-class string fails in the opposite direction (joining context): no finer class there
					key += ":" + okind
				}
			}
			r.Violation(key, &cc, fmt.Sprintf("%s %U rtl=%v level=%d feats=%d var=%d cuts %v: whole %s pieces %s", c.File, c.Text, c.RTL, c.Level, c.Feats, c.Var, sub, fmtGlyphs(whole), fmtGlyphs(cat)))
			return false
		}
		return true
	}
	if len(cuts) <= 3 {
		for m := 1; m < 1<<len(cuts); m++ {
			var sub []int
			for i, x := range cuts {
				if m>>i&1 == 1 {
					sub = append(sub, x)
				}
			}
			if !try(sub) {
				return
			}
		}
		return
	}
	for _, x := range cuts {
		if !try([]int{x}) {
			return
		}
	}
	try(cuts)
}

// c18nativeRTL: the horizontal direction HarfBuzz considers native for the script
func c18nativeRTL(script language.Script) bool {
	switch script {
	case language.Arabic, language.Hebrew, language.Syriac, language.Nko, language.Adlam, language.Thaana, language.Mandaic, language.Hanifi_Rohingya,
		language.Manichaean, language.Psalter_Pahlavi, language.Sogdian, language.Old_Sogdian, language.Samaritan, language.Phoenician, language.Imperial_Aramaic,
		language.Kharoshthi, language.Lydian, language.Cypriot, language.Avestan, language.Inscriptional_Pahlavi, language.Inscriptional_Parthian, language.Old_South_Arabian,
		language.Old_Turkic, language.Meroitic_Cursive, language.Meroitic_Hieroglyphs, language.Old_North_Arabian, language.Nabataean, language.Palmyrene, language.Hatran,
		language.Old_Hungarian, language.Mende_Kikakui, language.Elymaic, language.Chorasmian, language.Yezidi:
		return true
	}
	return false
}

// c18normalizationCluster: the cluster of the first differing glyph is not stable under NFC/NFD
func c18normalizationCluster(c *c18case, a, b []c18glyph) bool {
	i := 0
	for i < len(a) && i < len(b) && sameShape(a[i], b[i]) {
		i++
	}
	var cl int
	switch {
	case i < len(b):
		cl = b[i].Cl
	case i < len(a):
		cl = a[i].Cl
	default:
		return false
	}
	if cl < 0 || cl >= len(c.Text) {
		return false
	}
	// the cluster: from cl to the next cluster value of the whole-text result
	end := len(c.Text)
	for _, g := range b {
		if g.Cl > cl && g.Cl < end {
			end = g.Cl
		}
	}
	t := string(c.Text[cl:end])
	return norm.NFD.String(t) != t || norm.NFC.String(t) != t
}

// hasInsertedDottedCircle: the text has no U+25CC but one of the two glyph strings shows its glyph
func (e *c18env) hasInsertedDottedCircle(c *c18case, a, b []c18glyph) bool {
	dc, ok := e.face.NominalGlyph(0x25CC)
	if !ok {
		return false
	}
	for _, r := range c.Text {
		if r == 0x25CC {
			return false
		}
	}
	for _, s := range [][]c18glyph{a, b} {
		for _, g := range s {
			if g.G == dc {
				return true
			}
		}
	}
	return false
}

func c18cutBeforeMark(text []rune, cuts []int) bool {
	for _, p := range cuts {
		if p > 0 && p < len(text) && (unicode.Is(unicode.M, text[p]) || c18isDI(text[p])) {
			return true
		}
	}
	return false
}

func c18isDI(r rune) bool {
	switch {
	case r == 0x00AD, r == 0x034F, r == 0x061C, r >= 0x115F && r <= 0x1160, r >= 0x17B4 && r <= 0x17B5, r >= 0x180B && r <= 0x180F,
		r >= 0x200B && r <= 0x200F, r >= 0x202A && r <= 0x202E, r >= 0x2060 && r <= 0x206F, r == 0x3164, r >= 0xFE00 && r <= 0xFE0F, r == 0xFEFF,
		r == 0xFFA0, r >= 0xFFF0 && r <= 0xFFF8, r >= 0x1BCA0 && r <= 0x1BCA3, r >= 0x1D173 && r <= 0x1D17A, r >= 0xE0000 && r <= 0xE0FFF:
		return true
	}
	return false
}

// sameButIgnorables: the two glyph strings are equal once the zero-advance glyphs of the default-ignorable runes of the text are removed
func (e *c18env) sameButIgnorables(c *c18case, a, b []c18glyph) bool {
	di := map[harfbuzz.GID]bool{}
	for _, r := range c.Text {
		if c18isDI(r) {
			if g, ok := e.face.NominalGlyph(r); ok {
				di[g] = true
			}
			if g, ok := e.face.NominalGlyph(' '); ok { // hidden default ignorables are replaced by the space glyph
				di[g] = true
			}
		}
	}
	if len(di) == 0 {
		return false
	}
	strip := func(s []c18glyph) []c18glyph {
		var out []c18glyph
		for _, g := range s {
			if di[g.G] && g.XA == 0 && g.YA == 0 {
				continue
			}
			out = append(out, g)
		}
		return out
	}
	x, y := strip(a), strip(b)
	if len(x) != len(y) || len(x) == len(a) {
		return false
	}
	for i := range x {
		if !sameShape(x[i], y[i]) {
			return false
		}
	}
	return true
}

func c18boundaries(gs []c18glyph) int {
	n := 0
	for i := 1; i < len(gs); i++ {
		if gs[i].Cl != gs[i-1].Cl {
			n++
		}
	}
	return n
}

func (e *c18env) text(name string, t []rune, script language.Script, origin string, thorough bool) {
	sf := e.sf
	class := shaperClass(sf, script)
	rtl := c18nativeRTL(script)
	base := c18case{File: name, Face: sf.idx, Text: t, RTL: rtl, Script: script.String(), Origin: origin}
	e.one(&base, class)
	c := base
	c.RTL = !rtl
	e.one(&c, class)
	c = base
	c.Level = 1
	e.one(&c, class)
	for fe := 1; fe <= 3; fe++ {
		if fe == 3 && sf.optFeat == 0 {
			continue
		}
		c = base
		c.Feats = fe
		e.one(&c, class)
	}
	nv := len(e.axes)
	if !thorough && nv > 2 {
		nv = 2
	}
	if nv > 6 {
		nv = 6
	}
	for v := 1; v <= nv; v++ {
		c = base
		c.Var = v
		e.one(&c, class)
		if thorough {
			c.Level = 1
			e.one(&c, class)
		}
	}
}

func (e *c18env) font(sf *shFont, maxLen, perLookup, perSig int, thorough bool) {
	r := e.r
	if sf.hasMorx {
		r.Count("faces_with_AAT_substitution(outside the property)", 1)
		return
	}
	e.sf = sf
	e.face = font.NewFace(sf.ft)
	e.hbFont = harfbuzz.NewFont(e.face)
	e.buf = harfbuzz.NewBuffer()
	e.curV = 0
	e.axes = nil
	lds := corpus.Loaders(sf.file)
	if sf.idx < len(lds) {
		for _, a := range corpus.Axes(lds[sf.idx]) {
			// the maximum first: it is the corner most kerning deltas are drawn for
			e.axes = append(e.axes, font.Variation{Tag: a.Tag, Value: a.Maximum}, font.Variation{Tag: a.Tag, Value: a.Minimum})
		}
	}
	name := sf.file.Name
	// (b) rule witnesses first: they are the sharpest inputs
	var gen *c18gen
	func() {
		defer func() {
			if x := recover(); x != nil {
				r.Count("faces_whose_lookups_cannot_be_walked", 1)
			}
		}()
		gen = newC18gen(sf.ft, perLookup)
		k := 2
		if thorough {
			k = 3
		}
		gen.run(k, perSig)
	}()
	if gen != nil {
		r.Count("rule_witnesses", int64(len(gen.out)))
		r.Count("rules_without_rune_witness", int64(gen.noWitness))
		r.Count("lookups_capped(witnesses per lookup)", int64(gen.capped))
		var ctx []rune
		for _, ru := range sf.alphabet {
			if ru > ' ' && language.LookupScript(ru).Strong() {
				ctx = append(ctx, ru)
				break
			}
		}
		ctx = append(ctx, ' ')
		for _, w := range gen.out {
			if r.Expired() {
				break
			}
			sc := textScript(w.text)
			e.text(name, w.text, sc, w.origin, thorough)
			for _, x := range ctx {
				e.text(name, append([]rune{x}, w.text...), sc, w.origin, thorough)
				e.text(name, append(append([]rune{}, w.text...), x), sc, w.origin, thorough)
				if thorough {
					e.text(name, append(append([]rune{x}, w.text...), x), sc, w.origin, thorough)
				}
			}
		}
	}
	// (a) enumeration over the font-derived alphabet and the script packs
	enumTexts(sf.alphabet, 2, maxLen, func(idx int, t []rune) bool {
		if r.Expired() {
			return false
		}
		e.text(name, t, textScript(t), "enum:alphabet", thorough)
		return true
	})
	for _, pk := range shPacks {
		var al []rune
		for _, ru := range pk.runes {
			if _, ok := sf.ft.NominalGlyph(ru); ok {
				al = append(al, ru)
			}
		}
		if len(al) < 2 || r.Expired() {
			continue
		}
		al = append(al, 0x200D, 0x200C, ' ')
		pl := maxLen
		if len(sf.file.Data) < 4<<20 && pl < 3 {
			pl = 3
		}
		if thorough && len(sf.file.Data) < 1<<20 {
			pl = 4
		}
		enumTexts(al, 2, pl, func(idx int, t []rune) bool {
			if r.Expired() {
				return false
			}
			e.text(name, t, parseScript(pk.script), "enum:pack-"+pk.script, thorough)
			return true
		})
	}
	// (c) rules of the shaper itself that no lookup of the font describes: automatic fractions (frac, or numr+dnom, around
	// U+2044): every string over {digit, digit, FRACTION SLASH, space} holding a slash and a digit
	if c18hasFractions(sf.ft) && !r.Expired() {
		fl := 5
		if thorough {
			fl = 6
		}
		n := 0
		enumTexts([]rune{'1', 0x2044, '2', ' '}, 3, fl, func(idx int, t []rune) bool {
			if r.Expired() {
				return false
			}
			slash, digit := false, false
			for _, ru := range t {
				slash = slash || ru == 0x2044
				digit = digit || ru == '1' || ru == '2'
			}
			if !slash || !digit {
				return true
			}
			n++
			base := c18case{File: name, Face: sf.idx, Text: t, Script: "Latn", Origin: "shaper:fractions"}
			e.one(&base, "default")
			c := base
			c.RTL = true
			e.one(&c, "default")
			if thorough {
				c = base
				c.Level = 1
				e.one(&c, "default")
			}
			return true
		})
		r.Count("fraction_texts", int64(n))
		r.Count("faces_with_automatic_fractions", 1)
	}
	e.setVar(0)
	r.Count("faces", 1)
}

// c18hasFractions: the plan of the face enables automatic fractions (frac, or numr and dnom) and the face maps the slash and digits
func c18hasFractions(ft *font.Font) bool {
	for _, ru := range []rune{'1', '2', 0x2044} {
		if _, ok := ft.NominalGlyph(ru); !ok {
			return false
		}
	}
	var frac, numr, dnom bool
	for _, fe := range ft.GSUB.Features {
		switch fe.Tag {
		case ot.MustNewTag("frac"):
			frac = true
		case ot.MustNewTag("numr"):
			numr = true
		case ot.MustNewTag("dnom"):
			dnom = true
		}
	}
	return frac || (numr && dnom)
}

func c18Run(tier, shard string, r *mc.Reporter) {
	i, _ := strconv.Atoi(shard)
	f := &corpus.Files()[i]
	k, nu, maxLen, _ := shParams(tier, len(f.Data))
	perLookup, perSig := 100, 4
	if tier == "thorough" {
		perLookup, perSig = 1500, 16
	}
	e := &c18env{r: r}
	for _, sf := range loadShFonts(f, k, nu) {
		if r.Expired() {
			break
		}
		e.font(sf, maxLen, perLookup, perSig, tier == "thorough")
	}
	if r.Expired() {
		r.Incomplete("deadline in " + f.Name)
	}
}

func c18Replay(raw json.RawMessage, r *mc.Reporter) {
	var c c18case
	if json.Unmarshal(raw, &c) != nil || c.File == "" {
		var j struct{ Journal, Shard string }
		json.Unmarshal(raw, &j)
		fmt.Println("journalled case:", j.Journal, "- re-running shard", j.Shard)
		if j.Shard != "" {
			c18Run("quick", j.Shard, r)
		}
		return
	}
	f := corpus.Get(c.File)
	if f == nil {
		fmt.Println("unknown corpus file", c.File)
		return
	}
	for _, sf := range loadShFonts(f, 4, 6) {
		if sf.idx != c.Face {
			continue
		}
		e := &c18env{r: r, sf: sf, face: font.NewFace(sf.ft), buf: harfbuzz.NewBuffer()}
		e.hbFont = harfbuzz.NewFont(e.face)
		lds := corpus.Loaders(sf.file)
		if sf.idx < len(lds) {
			for _, a := range corpus.Axes(lds[sf.idx]) {
				e.axes = append(e.axes, font.Variation{Tag: a.Tag, Value: a.Maximum}, font.Variation{Tag: a.Tag, Value: a.Minimum})
			}
		}
		e.one(&c, shaperClass(sf, parseScript(c.Script)))
	}
}

func init() {
	Register(&mc.Check{
		ID: "C18", Level: "exploration",
		Rule:        "cutting at any subset of the cluster boundaries whose adjacent glyph lacks GlyphUnsafeToBreak and shaping the pieces with context reproduces glyph ids, clusters, advances and offsets of the whole-text shaping; defined glyph flags uniform per cluster",
		Assumptions: []string{"fonts with morx/mort are outside the property (AAT substitution)", "results whose clusters are not monotone are outside the premise (counted)", "rule witnesses need every glyph of the rule to be reachable from a rune (directly or through one single substitution); rules that are not are counted", "witnesses per lookup and kerning pairs per value-record signature are capped per tier (counted)"},
		Shards:      shShards, Run: c18Run, Replay: c18Replay,
		Watchdog: 0, MemLimit: 6 << 30,
		Bounds: map[string]string{"quick": "rule witnesses: <= 100 per lookup, 4 kerning pairs per value signature, 2 representatives per class; alphabet strings of length 2 (packs 3); 2 variation corners", "thorough": "rule witnesses: <= 1500 per lookup, 16 pairs per signature, 3 representatives per class, embedded on both sides; alphabet strings length <= 3, script packs length <= 4 (faces < 1 MiB); up to 6 variation corners x cluster level"},
	})
}
