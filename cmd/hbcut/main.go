//go:build hb

// hbcut: shape a C18 replay case with the system libharfbuzz: whole text and the pieces of its cuts.
package main

import (
	"encoding/json"
	"fmt"
	"os"

	"verif/corpus"
	"verif/hbref"

	"github.com/go-text/typesetting/language"
)

type cs struct {
	Case struct {
		File   string `json:"file"`
		Face   int    `json:"face"`
		Text   []rune `json:"text"`
		RTL    bool   `json:"rtl"`
		Script string `json:"script"`
		Level  int    `json:"level"`
		Cuts   []int  `json:"cuts"`
	} `json:"case"`
}

func main() {
	raw, _ := os.ReadFile(os.Args[1])
	var c cs
	if err := json.Unmarshal(raw, &c); err != nil || c.Case.File == "" {
		json.Unmarshal(raw, &c.Case)
	}
	k := c.Case
	f := corpus.Get(k.File)
	ref := hbref.NewFont(f.Data, k.Face)
	sc, _ := language.ParseScript(k.Script)
	dir := 4
	if k.RTL {
		dir = 5
	}
	shape := func(s, e int) []hbref.Glyph {
		fl := 3
		if s > 0 {
			fl &^= 1
		}
		if e < len(k.Text) {
			fl &^= 2
		}
		return ref.Shape(k.Text, s, e-s, dir, uint32(sc), "", fl, k.Level, nil)
	}
	show := func(gs []hbref.Glyph) {
		for _, g := range gs {
			fl := ""
			if g.Mask&1 != 0 {
				fl = "#"
			}
			fmt.Printf("%d=%d%s+%d,%d@%d,%d|", g.ID, g.Cluster, fl, g.XAdvance, g.YAdvance, g.XOffset, g.YOffset)
		}
		fmt.Println()
	}
	fmt.Printf("%s %U rtl=%v cuts=%v\nhb whole : ", k.File, k.Text, k.RTL, k.Cuts)
	show(shape(0, len(k.Text)))
	b := append(append([]int{0}, k.Cuts...), len(k.Text))
	var parts [][]hbref.Glyph
	for i := 0; i+1 < len(b); i++ {
		parts = append(parts, shape(b[i], b[i+1]))
	}
	var cat []hbref.Glyph
	if k.RTL {
		for i := len(parts) - 1; i >= 0; i-- {
			cat = append(cat, parts[i]...)
		}
	} else {
		for _, p := range parts {
			cat = append(cat, p...)
		}
	}
	fmt.Print("hb pieces: ")
	show(cat)
}
