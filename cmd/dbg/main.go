package main

import (
	"fmt"
	"os"
	"path/filepath"

	"verif/corpus"
	"verif/mc"

	ot "github.com/go-text/typesetting/font/opentype"
	"github.com/go-text/typesetting/fontscan"
)

func main() {
	f := corpus.Get("hb/harfbuzz_reference/in-house/fonts/SimpArabicTest.ttf")
	ld := corpus.Loaders(f)[0]
	var tbs []ot.Table
	for _, t := range ld.Tables() {
		if raw, err := ld.RawTable(t); err == nil && t != ot.MustNewTag("OS/2") {
			tbs = append(tbs, ot.Table{Tag: t, Content: raw})
		}
	}
	data := ot.WriteTTF(tbs)
	root, _ := os.MkdirTemp("/var/tmp", "dbg")
	defer os.RemoveAll(root)
	scan := func(dir string) {
		idx, err := fontscan.VerifScan(nil, fontscan.VerifIndex{}, dir)
		fmt.Println(err)
		for _, f := range idx.Files() {
			for _, fp := range f.Footprints {
				fmt.Println(filepath.Base(f.Path), fp.Family, len(fp.Scripts), fp.Runes.Len(), mc.DeepHash(&fp.Runes))
			}
		}
	}
	os.MkdirAll(root+"/a", 0o755)
	os.WriteFile(root+"/a/b_font.ttf", data, 0o644)
	scan(root + "/a")
	n := 0
	for _, p := range corpus.Files() {
		if len(p.Data) > 64<<10 || n > 12 {
			continue
		}
		n++
		d := fmt.Sprintf("%s/p%d", root, n)
		os.MkdirAll(d, 0o755)
		os.WriteFile(d+"/a_font"+filepath.Ext(p.Name), p.Data, 0o644)
		os.WriteFile(d+"/b_font.ttf", data, 0o644)
		scan(d)
	}
}
