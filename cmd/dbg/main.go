package main

import (
	"fmt"

	"verif/corpus"
)

func main() {
	fs := corpus.Files()
	for i := 715; i < len(fs); i++ {
		fmt.Println(i, fs[i].Name, len(fs[i].Data))
	}
}
