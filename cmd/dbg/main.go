package main

import (
	"fmt"

	"verif/corpus"

	"github.com/go-text/typesetting/font"
	"github.com/go-text/typesetting/harfbuzz"
	"github.com/go-text/typesetting/language"
)

func main() {
	f := corpus.Get("hb/harfbuzz_reference/in-house/fonts/8339c821814d9bad7c77169332327ad8b0f33c81.ttf")
	ft := corpus.Fonts(f)[0]
	fmt.Println("GSUB", len(ft.GSUB.Lookups), "GPOS", len(ft.GPOS.Lookups), "kern", len(ft.Kern))
	face := font.NewFace(ft)
	hf := harfbuzz.NewFont(face)
	for _, text := range [][]rune{{0x627, 0x31}, {0x627, 0x31, 0x34F}} {
		for _, dir := range []harfbuzz.Direction{harfbuzz.LeftToRight, harfbuzz.RightToLeft} {
			b := harfbuzz.NewBuffer()
			b.Props = harfbuzz.SegmentProperties{Direction: dir, Script: language.Arabic}
			b.Flags = harfbuzz.Bot | harfbuzz.Eot
			b.AddRunes(text, 0, len(text))
			b.Shape(hf, nil)
			fmt.Printf("%U dir %v: ", text, dir)
			for i, in := range b.Info {
				fmt.Printf("%d=%d mask%#x +%d | ", in.Glyph, in.Cluster, in.Mask&7, b.Pos[i].XAdvance)
			}
			fmt.Println()
		}
	}
}
