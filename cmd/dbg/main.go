package main

import (
	"fmt"

	"verif/corpus"

	"github.com/go-text/typesetting/font"
	"github.com/go-text/typesetting/harfbuzz"
	"github.com/go-text/typesetting/language"
)

func main() {
	f := corpus.Get("ot/common/Estedad-VF.ttf")
	ft := corpus.Fonts(f)[0]
	face := font.NewFace(ft)
	hf := harfbuzz.NewFont(face)
	text := []rune{0x064E, 0x0628, 0x064E, 0x0626}
	text2 := []rune{0x0628, 0x064E, 0x0626}
	for k, cfg := range [][3]int{{0, 3, 3}, {0, 4, 3}, {1, 3, 2}} {
		if k == 0 {
			text, text2 = text2, text
		} else if k == 1 {
			text, text2 = text2, text
		}
		b := harfbuzz.NewBuffer()
		b.Props = harfbuzz.SegmentProperties{Direction: harfbuzz.RightToLeft, Script: language.Arabic}
		b.Flags = harfbuzz.ShappingOptions(cfg[2])
		b.AddRunes(text, cfg[0], cfg[1])
		b.Shape(hf, nil)
		fmt.Println(cfg)
		for i, in := range b.Info {
			fmt.Printf("  %d=%d %+v\n", in.Glyph, in.Cluster, b.Pos[i])
		}
	}
}
