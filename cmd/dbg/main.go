package main

import (
	"fmt"

	"verif/corpus"

	"github.com/go-text/typesetting/font"
	ot "github.com/go-text/typesetting/font/opentype"
	"github.com/go-text/typesetting/font/opentype/tables"
)

func main() {
	f := corpus.Get("ot/common/NotoSansCJKjp-VF.otf")
	ld := corpus.Loaders(f)[0]
	ft, err := font.NewFont(ld)
	fmt.Println(err, len(ft.GSUB.Lookups), len(ft.GPOS.Lookups))
	raw, _ := ld.RawTable(ot.MustNewTag("GPOS"))
	lay, _, err := tables.ParseLayout(raw)
	fmt.Println("layout", err, len(lay.LookupList.Lookups))
	for i, lk := range lay.LookupList.Lookups {
		sts, err := lk.AsGPOSLookups()
		if err != nil {
			fmt.Println(i, err)
			continue
		}
		for j, st := range sts {
			if ext, ok := st.(tables.ExtensionPos); ok {
				st, err = ext.Resolve()
				if err != nil {
					fmt.Println(i, j, "resolve", err)
					continue
				}
			}
			switch s := st.(type) {
			case tables.SinglePos:
				err = s.Sanitize()
			case tables.PairPos:
				err = s.Sanitize()
			case tables.MarkBasePos:
				err = s.Sanitize()
			case tables.MarkLigPos:
				err = s.Sanitize()
			}
			if err != nil {
				fmt.Printf("lookup %d subtable %d %T: %v\n", i, j, st, err)
			}
		}
	}
}
