package main

import (
	"bytes"
	"fmt"
	"os"

	ot "github.com/go-text/typesetting/font/opentype"
)

func main() {
	b, _ := os.ReadFile(os.Args[1])
	ld, err := ot.NewLoader(bytes.NewReader(b))
	if err != nil {
		panic(err)
	}
	for _, t := range ld.Tables() {
		fmt.Print(t, " ")
	}
	fmt.Println()
}
