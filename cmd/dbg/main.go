package main

import (
	"fmt"

	"verif/corpus"

	"github.com/go-text/typesetting/font"
	"github.com/go-text/typesetting/harfbuzz"
	"github.com/go-text/typesetting/language"
)

func main() {
	f := corpus.Get("hb/harfbuzz_reference/in-house/fonts/226bc2deab3846f1a682085f70c67d0421014144.ttf")
	ft := corpus.Fonts(f)[0]
	face := font.NewFace(ft)
	hf := harfbuzz.NewFont(face)
	for _, lv := range []int{0, 1} {
		b := harfbuzz.NewBuffer()
		b.Props = harfbuzz.SegmentProperties{Direction: harfbuzz.RightToLeft, Script: language.Malayalam}
		b.ClusterLevel = harfbuzz.ClusterLevel(lv)
		b.AddRunes([]rune{0xd4d, 0x200c, 0xd46}, 0, 3)
		b.Shape(hf, nil)
		for i, in := range b.Info {
			fmt.Printf("%d=%d +%d | ", in.Glyph, in.Cluster, b.Pos[i].XAdvance)
		}
		fmt.Println()
	}
}
