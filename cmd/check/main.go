package main

import (
	"verif/checks"
	"verif/mc"
)

func main() { mc.Main(checks.All) }
