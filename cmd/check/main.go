package main

import (
	"os"

	"verif/checks"
	"verif/mc"
)

func main() {
	if len(os.Args) > 1 {
		if f, ok := checks.ExtraCommands[os.Args[1]]; ok {
			f(os.Args[2:])
			return
		}
	}
	mc.Main(checks.All)
}
