//go:build hb

// hbshape: shape a C01/C05 style replay case (file, text, start, end, dir, script, flags, level) with the system
// libharfbuzz and with the port's harfbuzz package, and print both glyph/cluster sequences (triage tool).
package main

import (
	"bytes"
	"encoding/json"
	"fmt"
	"os"

	"verif/corpus"
	"verif/hbref"

	"github.com/go-text/typesetting/font"
	"github.com/go-text/typesetting/harfbuzz"
	"github.com/go-text/typesetting/language"
)

type cs struct {
	File   string `json:"file"`
	Face   int    `json:"face"`
	Text   []rune `json:"text"`
	Start  int    `json:"start"`
	End    int    `json:"end"`
	Dir    int    `json:"dir"`
	Script string `json:"script"`
	Flags  int    `json:"flags"`
	Level  int    `json:"level"`
}

func main() {
	raw, _ := os.ReadFile(os.Args[1])
	var w struct {
		Case cs `json:"case"`
	}
	json.Unmarshal(raw, &w)
	k := w.Case
	f := corpus.Get(k.File)
	ref := hbref.NewFont(f.Data, k.Face)
	sc, _ := language.ParseScript(k.Script)
	hbDir := []int{4, 5, 6, 7, 6, 7}[k.Dir]
	fmt.Printf("%s %U [%d,%d) dir=%d flags=%d level=%d\nlibhb: ", k.File, k.Text, k.Start, k.End, k.Dir, k.Flags, k.Level)
	for _, g := range ref.Shape(k.Text, k.Start, k.End-k.Start, hbDir, uint32(sc), "", k.Flags, k.Level, nil) {
		fmt.Printf("%d=%d+%d,%d|", g.ID, g.Cluster, g.XAdvance, g.YAdvance)
	}
	fmt.Println()
	faces, err := font.ParseTTC(bytes.NewReader(f.Data))
	if err != nil {
		fmt.Println("port: ", err)
		return
	}
	hf := harfbuzz.NewFont(faces[k.Face])
	b := harfbuzz.NewBuffer()
	b.Props = harfbuzz.SegmentProperties{Direction: []harfbuzz.Direction{harfbuzz.LeftToRight, harfbuzz.RightToLeft, harfbuzz.TopToBottom, harfbuzz.BottomToTop, harfbuzz.TopToBottom, harfbuzz.BottomToTop}[k.Dir], Script: sc}
	b.Flags = harfbuzz.ShappingOptions(k.Flags)
	b.ClusterLevel = harfbuzz.ClusterLevel(k.Level)
	b.AddRunes(k.Text, k.Start, k.End-k.Start)
	b.Shape(hf, nil)
	fmt.Print("port : ")
	for i, g := range b.Info {
		fmt.Printf("%d=%d+%d,%d|", g.Glyph, g.Cluster, b.Pos[i].XAdvance, b.Pos[i].YAdvance)
	}
	fmt.Println()
}
