#!/bin/sh
# replays every stored C09 violation against the current /repo tree and prints the ones still violating
cd /verif
export GOFLAGS=-mod=mod GOPROXY=off GOSUMDB=off GOTOOLCHAIN=local
go build -tags verif -o bin/check.dbg ./cmd/check || exit 2
for f in c09cases/C09-*.json; do
  k=$(grep -o '"key": "[^"]*"' $f | head -1)
  case "$k" in *panic*|*alloc*) ;; *) echo "SKIP(worker death) $k $f"; continue;; esac
  out=$(timeout 120 ./bin/check.dbg C09 --tier quick --replay $f 2>&1 | grep "^replay: violated" | cut -c1-200)
  [ -n "$out" ] && echo "STILL $f $out"
done
