#!/usr/bin/env python3
"""usage: seedstore.py <Cxx> <m> <pkgdir> <testre> <detected: yes|no|after-strengthening> <check output key> <needs...>"""
import sys, os, shutil, json, subprocess
pid, m, pkg, testre, detected, key = sys.argv[1:7]
needs = " ".join(sys.argv[7:])
src = os.environ.get("SEEDSRC", "/tmp/seedout-%s/%s" % (pid, m))
dst = "/verif/seeded/%s-%s" % (pid, m)
os.makedirs(dst, exist_ok=True)
patch = os.path.join(src, "patch.rebased.diff")
if not os.path.exists(patch): patch = os.path.join(src, "patch.diff")
shutil.copy(patch, os.path.join(dst, "patch.diff"))
shutil.copy(os.path.join(src, "demo_test.go"), os.path.join(dst, "demo_test.go.txt"))
if os.path.exists(os.path.join(src, "notes.md")): shutil.copy(os.path.join(src, "notes.md"), os.path.join(dst, "notes.md"))
head = subprocess.check_output(["git","-C","/repo","rev-parse","--short","HEAD"]).decode().strip()
meta = {
 "property": pid, "id": "%s-%s" % (pid, m),
 "author": "independent sub-agent given only the property text and a scratch worktree",
 "needs_to_manifest": needs,
 "demo": {"file": "demo_test.go.txt (copy to %s/ as *_test.go)" % pkg, "run": "go test -vet=off -count=1 -run %s ./%s/" % (testre, pkg)},
 "confirmed": {"repo_head": head, "how": "tools/seedverify.sh in a scratch worktree: full suite passes with the change; demo fails with it; demo passes without it"},
 "ran": "tools/seedtest.sh seeded/%s-%s/patch.diff %s quick" % (pid, m, pid),
 "detected_by_check": detected, "violation_key": key,
}
json.dump(meta, open(os.path.join(dst, "meta.json"), "w"), indent=1)
print("stored", dst)
