#!/bin/sh
# usage: seedalt.sh <worktree> <patch.diff> <check id> [tier] — like seedtest.sh, but applies the change in a scratch worktree
# and runs the check against it with tools/runalt.sh (leaves /repo alone; used while other checks are running on /repo)
wt="$1"; patch="$2"; id="$3"; tier="${4:-quick}"
cd "$wt" || exit 2
git reset -q --hard HEAD; git clean -fdq
git apply "$patch" || { echo "PATCH DOES NOT APPLY"; exit 3; }
/verif/tools/runalt.sh "$wt" "$id" "$tier" > /var/tmp/verif-seedalt.$$.log 2>&1; rc=$?
grep -v "^WARNING" /var/tmp/verif-seedalt.$$.log | grep "violation key\|tier=\|BUILD\|KNOWN" | head -8
rm -f /var/tmp/verif-seedalt.$$.log
git reset -q --hard HEAD; git clean -fdq
echo "exit=$rc"
exit $rc
