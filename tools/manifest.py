#!/usr/bin/env python3
"""Regenerates /verif/MANIFEST.json from the table below (single source of truth)."""
import json, sys

ALL = ["C%02d" % i for i in range(1, 21)]

WRAP_NOTE = "Shaped runs are synthetic (generator asserts the shaper output contract); break opportunities come from the segmenter (C06). Negative letter spacing is checked for conservation only (measure not monotone)."
SHAPE_NOTE = "The alphabet is a heuristic quotient (font-derived lookup-coverage classes + per-script category packs + universal troublemakers): the claim is 'all strings over this alphabet up to the bound', not 'all strings'. Secondary axes are crossed with the string axis, not with each other. Worker processes run under RLIMIT_AS with a per-case journal and watchdog."
CHECKS = {
 "C05": dict(
   level="exploration",
   text="Every corpus face libharfbuzz opens x every string up to the tier's length over its font-derived alphabet, the script packs and the normalisation pack x directions, per-axis min/max variations, global/ranged/optional features (through one reused feature array), cluster levels and flags: harfbuzz.Buffer.Shape compared field by field with hb_shape of the system libharfbuzz 6.0.0 (cgo) on the same bytes. Domain D is defined by 11 rules (DESIGN.md C05): cmap-layer differences (C10/C11), Graphite fonts, growth-limit outputs, bitmap-only and COLR fonts, Arabic fallback shaping, vertical runs without vmtx, active FeatureVariations, USE scripts, mapped SOFT HYPHEN, FFTM-era Amiri.",
   note="The reference is HarfBuzz 6.0.0 while the port follows a later upstream: agreement is claimed on D only, where go-text == 6.0.0 on the whole enumeration of the unchanged tree; rules R7, R9, R12 are unresolved classes (R11 was resolved by fix cba4f71) (version drift or port defect could not be told apart in the sandbox). Built as a cgo variant of the check binary; setup fails loudly if it cannot link.",
   technique="bounded exhaustive differential enumeration against a live reference implementation (E1)",
   design="1/C05 and 6.5", engine="E1 enum"),
 "C10": dict(
   level="exploration",
   text="Every face of the 738 corpus files x every glyph id (quick: at most 2000 per face of files over 1 MB) x {default instance, all-min, all-max, outside the axis range, interior point, per-axis min/max/60% points}: Upem, every rune of the character map (NominalGlyph), horizontal/vertical advances, GlyphExtents, normalised coordinates and the outline segments of GlyphData (glyf incl. gvar, CFF, CFF2 incl. blend) compared with the font functions and draw callbacks of the system libharfbuzz 6.0.0 (cgo); and at the default instance units-per-em, advances and TrueType/CFF outlines compared with golang.org/x/image/font/sfnt at ppem = upem.",
   note="Tolerances and domain rules (DESIGN.md C10): extents of variable instances +-1 unit (rounding of the far edge changed between HarfBuzz releases); x/image rounds transformed component points to whole units (tolerance max(4, upem/128) units for glyf, 8 units for CFF) and overflows its 32-bit fixed point for |coordinate| x ppem >= 2^31 (skipped, counted); the glyf outline is shifted by lsb - xMin like HarfBuzz/FreeType (accepted against x/image only when it lands on the XBearing of GlyphExtents or equals the libharfbuzz drawing); faces with both glyf and CFF, bitmap/colour/SVG glyph data are not compared for extents/outlines. Built as the cgo variant of the check binary.",
   technique="bounded exhaustive differential enumeration (every glyph of every corpus face x corner design coordinates) against two live reference decoders (E1)",
   design="1/C10 and 6.5", engine="E1 enum"),
 "C18": dict(
   level="exploration",
   text="Every corpus face without AAT substitution (672) x {rule witnesses: the rune sequences spelling every ligature, context / chained-context rule (3 formats, incl. rules without nested lookups), reverse chaining rule, kerning pair per value-record signature (incl. device/variation-only records), cursive and mark attachment of the face's own GSUB/GPOS lookups and kern pairs, alone and embedded in neutral context; every string up to the tier's length over the font-derived alphabet and the script packs; for faces with automatic fractions every string of length 3..5 (6) over {1, U+2044, 2, space}} x {native, opposite direction} x cluster levels 0/1 x {no feature, liga off, kern off, first optional feature} x {default instance, per-axis max/min}. For every shaped result every subset of the safe boundaries (<= 3 boundaries; else every single cut + all cuts): pieces shaped through Buffer.AddRunes(text, start, len) with Bot/Eot cleared at interior ends, concatenated in visual order, compared glyph by glyph (id, cluster, advances, offsets) with the whole-text result; defined glyph flags uniform per cluster.",
   note="13 known findings (known_findings.jsonl): non-native directions (one key for the Arabic class, one per kind of input for the other shapers) and three classes of Indic broken/decomposable sequences, all with identical whole/piece results in libharfbuzz 6.0.0 (cmd/hbcut), i.e. behaviour of the reference shaper that C05 requires. Violation keys carry shaper class, native/non-native direction and the lookup type of the witness, so other violations are still reported. Witnesses per lookup and pairs per signature are capped per tier (counted in the evidence).",
   technique="bounded exhaustive enumeration of inputs (rule-witness quotient of the font's own lookups + alphabets) x configurations x every safe cut set, differential oracle whole vs pieces (E1)",
   design="1/C18 and 6.8", engine="E1 enum"),
 "C09": dict(
   level="fault_enumeration",
   text="Single-fault enumeration on every corpus file (738; sfnt, TTC, WOFF, dfont): every byte x {v+1, v-1, 0, 0xFF, sign flip, 0x20}, every 16-bit aligned field x {0, 1, 0x7FFF, 0x8000, 0xFFFF, v-1, v+1, len(file), len(table)}, every 32-bit aligned field x {0, 1, 0x7FFFFFFF, 0xFFFFFFFF, len(file)-1, len(file), offsets of other tables}, every prefix (truncation), every pair of directory entries swapped - over the whole file for files up to the tier's bound (thorough 8 KiB), else over the container header, table directory, the head of every table and every small table. Each faulted file goes through opentype.NewLoaders, NewFont and the whole query surface (character map, advances, origins, extents, outline/bitmap/SVG data, names, metrics, variations, ppem) and HarfbuzzShaper.Shape in several directions, in journalled worker processes under RLIMIT_AS.",
   note="Oracle: no panic (keyed by the innermost repository frame), no hang (120 s watchdog), no stack overflow / worker death, bytes allocated per case <= min(64 MiB + 256 x len(file), 3 GiB) (runtime/metrics; also enforced while the case runs by a monitor that ends the worker). 37 fix: commits (known_findings.jsonl); one known finding: eager decoding of overlapping GSUB/GPOS/GDEF lists (allocation amplification), needs a decoding budget in the generated readers. Time proportionality is only judged by the watchdog. Coverage-guided random mutation named by the property is sampling and not part of this check.",
   technique="exhaustive single-fault enumeration (field values, truncation points, directory swaps) over valid files with a totality and allocation-law oracle (E4)",
   design="1/C09 and 6.6", engine="E4 fault"),
 "C17": dict(
   level="model_checking",
   text="Explicit-state exploration of thread interleavings at operation granularity on the real objects: 8 shared *font.Font (glyf+gvar, CFF2 variable, CFF, morx, colour bitmap, bloc bitmap with a constant-metrics index subtable, GSUB/GPOS, HVAR variable; plus one font per character map implementation) x every pair of 2-operation thread programs and every triple of 1-operation programs over 9 colliding operations (NewFace+metrics, cmap, glyph queries, SetVariations+queries, HarfbuzzShaper.Shape, Buffer.Shape, FontMap+Segmenter.Split, ppem+GlyphData, Describe+segmenter) x every interleaving. After every transition the deep hash (unexported fields, full slice capacity, maps) of the shared font and of the package-level variables is compared with the one before; every result is compared with the solo run of the same thread program. In the solo runs all 289 package-level variables of the 12 repository packages (listed from source at build time by tools/c17gen through a build overlay) are hashed around every operation.",
   note="The repository has one synchronisation primitive (a sync.Once in fontscan): any write to a shared root is therefore a data race by definition, which is what the monitor decides exhaustively over the explored operation sequences. Interleavings inside an operation are not explored; the free-running -race pass (64 goroutines, same operations, plus concurrent UseSystemFonts on a scratch directory for the sync.Once, plus 16 goroutines reading 1500 bitmap glyphs of the two large bitmap fonts with index subtable formats 1, 2 and 5, compared with the solo answers) is the complementary, sampling detector and is reported as such in the evidence. Needs tools/c17gen + -overlay (run.sh does it); if the -race build is unavailable the pass is skipped and counted.",
   technique="explicit-state exploration of operation interleavings on the real objects with a write monitor over the shared roots and a differential (solo run) oracle (E3); free-running race detector pass as a non-exhaustive complement",
   design="1/C17 and 6.7", engine="E3 sched"),
 "C01": dict(
   level="exploration",
   text="Every corpus face (752) x every string up to the tier's length over its font-derived alphabet and the script packs it covers x {6 directions, every sub-run with context, out-of-contract bounds, 8 script tags, sizes, features, language} through shaping.Shape and x {7 flag values x 3 cluster levels x 2 directions} through harfbuzz.Buffer.Shape; totality (panic, hang, memory attributed to the journalled case), output budget, reported range, cluster membership/monotonicity/count laws.",
   note=SHAPE_NOTE, technique="bounded exhaustive enumeration of inputs and configurations against totality and accounting laws (E1)",
   design="1/C01", engine="E1 enum"),
 "C12": dict(
   level="exploration",
   text="The C01 font x string enumeration (whole text, 6 directions, 6 sizes from 1 to 4096 incl. fractional) through shaping.Shape; every Output checked for advance sums, zero cross-axis advances, glyph bounds enclosing baseline and ink, line bounds vs font extents at the advance scale, sideways == clockwise rotation of the horizontal shaping, and exact word/letter spacing deltas for positive/negative values x run-position flags, AddSpacing == per-run calls.",
   note=SHAPE_NOTE + " Vertical line bounds are not recomputed independently.", technique="bounded exhaustive enumeration of inputs and configurations against geometric identities (E1)",
   design="1/C12", engine="E1 enum"),
 "C13": dict(
   level="model_checking",
   text="Explicit exploration of every operation history up to depth 4 (thorough 5; LineWrapper 3/4) on 7 real objects: HarfbuzzShaper (several faces incl. two faces of one variable Font, sizes, features, directions, cache sizes, SetVariations on a cached face), harfbuzz.Buffer (flags, cluster levels, ranged features, sub-ranges), font.Face on a CFF2-variable, a gvar/HVAR and a bitmap font (SetVariations/SetCoords/SetPpem interleaved with queries), shaping.Segmenter, LineWrapper (WrapParagraph / Prepare / WrapNextLine; paragraphs of equal length handed over in one caller buffer overwritten in place). The last call of every history must equal the same call on freshly constructed objects; earlier results are re-compared with their copies until the documented invalidation point.",
   note="No hidden-state merging: histories are enumerated exhaustively and run on the implementation. segmenter.Segmenter reuse is decided by C06. Input alphabets are small and chosen to collide (same Font/different Face, same counts/different clusters).",
   technique="explicit-state exploration of operation histories on the real objects with a differential (fresh object) oracle (E2)",
   design="1/C13", engine="E2 hist"),
 "C16": dict(
   level="fault_enumeration",
   text="(a) round trip of the index of every corpus face and of extreme synthetic footprints; (b) every prefix (crash point) of the written gzip stream, every byte x 255 values of it, and byte/prefix faults of the uncompressed payload re-compressed, for two indexes; (c) the refresh sequence on every crash state of the cache file; (d) explicit-state search over file-system histories (20 operations incl. backward mtimes, renames, symlinks, two fonts installed with one shared time stamp, a WOFF file with a truncated compressed table) with a refresh and a persist/reload after each step, deduplicated on (tree listing, persisted index): incremental scan == scan from scratch.",
   note="refreshSystemFontsIndex is emulated on scratch directories with the same three calls (it reads host font directories otherwise). A corrupted cache that still parses to another index is counted, not judged. Hooks: fontscan.Verif* index entry points.",
   technique="exhaustive crash-point / single-fault enumeration (E4) + explicit-state search over file-system histories on the real scanner (E2)",
   design="1/C16", engine="E4 fault"),
 "C14": dict(
   level="model_checking",
   text="Explicit exploration of every operation history up to depth 4 (thorough 5) on a real FontMap, from the empty map (phase A) and from 4 pre-populated databases (phase B): AddFace of 7 synthetic faces, SetQuery (10), SetScript (3), SetRuneCacheSize (4), ResolveFace (7 runes). Every history ending in ResolveFace is compared with a fresh uncached FontMap (cache transparency / history independence) and with a reference model of the four documented steps validated on the unchanged tree.",
   note="Histories are enumerated without hidden-state merging (no dedup), so every trace runs on the implementation. Faces are synthetic (only a Cmap), all user provided; generic families are judged differentially only. System-font (non user-provided) priority is not covered.",
   technique="explicit-state exploration of operation histories on the real object with differential and reference-model oracles (E2)",
   design="1/C14", engine="E2 hist"),
 "C07": dict(
   level="exploration",
   text="Every text up to the tier's length over a 24-rune alphabet (4 scripts, both digit kinds, neutrals, 3 bracket pairs, mark, CJK, ZWJ, LF/PS, RLE/RLI/PDI, emoji) x every sub-range x 6 directions (incl. vertical with/without fixed orientation), languages and 4 Fontmap implementations crossed one at a time, plus a longer bracket-alphabet pass and every Unicode bracket pair between letters of two scripts (the closing bracket takes the script of the opening one); one long-lived Segmenter per shard and explicit reuse pairs against a fresh Segmenter; laws: exact partition, field identity, bidi parity against reference levels per paragraph, script uniformity and bracket/neutral context, orientation, face through the Fontmap (script hint told first), language/script compatibility.",
   note="Reference embedding levels: x/text bidi core via go:linkname, with the paragraph-level convention of the library's own call. Class B runes may have either parity. Neutral-only runs: script must come from a neighbouring run or a still unmatched opening bracket.",
   technique="bounded exhaustive enumeration of inputs and configurations against laws and reference UBA levels (E1) + depth-2 reuse histories",
   design="1/C07", engine="E1 enum"),
 "C11": dict(
   level="exploration",
   text="Every corpus face over all 0x110000 code points (Lookup vs Iter vs RuneRanges vs the coverage recorded by both footprint paths vs scripts of the mapped runes); synthetic subtables of formats 0/4/6/10/12/13 and the symbol / legacy-Arabic remapping enumerated over boundary segments and compared with a naive interpretation of the subtable; scriptsFromRanges on all short sorted range lists; RuneSet by explicit-state search over Add/Delete histories against map[rune]bool.",
   note="A rune mapped to glyph 0 may be reported as unmapped or as mapped to 0; only agreement is judged for it. Format 4 segments starting at 0xFFFF with an idRangeOffset follow the library's documented tolerance. Hooks: fontscan.Verif* (coverage, scriptsFromRanges, RuneSet internals).",
   technique="exhaustive enumeration per font + bounded enumeration of synthetic tables against a reference interpreter (E1); explicit-state search for RuneSet (E2)",
   design="1/C11", engine="E1 enum"),
 "C15": dict(
   level="exploration",
   text="Complete enumeration of candidate multisets of size 1 and 2 over the 396-aspect grid (9 stretches x 2 styles x 22 weights) crossed with all 690 queries (grid + unset fields), and of size 3 over a sub-grid, through fontSet.retainsBestMatches (verif hook), compared with a direct transcription of CSS Fonts 3 section 5.2.",
   note="Reference written from the CSS text; oblique == italic in this library. Sizes > 3 are not enumerated (the three search orders only compare a candidate with the request and with the best so far).",
   technique="exhaustive enumeration of a finite grid against a reference model (E1)",
   design="1/C15 + Appendix B", engine="E1 enum"),
 "C06": dict(
   level="exploration",
   text="Every string up to the tier's length over rule-class alphabets computed from the library's own lookups (49 line, 21 grapheme, 29 word and 127 joint signatures) is segmented by one long-lived Segmenter per shard and compared boundary by boundary (line incl. mandatory, grapheme, word segments) with a declarative evaluation of the UAX#14/#29 rule lists; all ordered reuse pairs of short strings with partially drained iterators.",
   note="Reference written from the rule text (ref/uaxref), sharing only the class lookups with the library (tables are decided by C20). LB25/LB13 in the Example-7 tailoring; no GB9c.",
   technique="bounded exhaustive enumeration over a rule-class quotient alphabet against a reference model (E1) + depth-2 reuse histories",
   design="1/C06 + Appendix B", engine="E1 enum"),
 "C08": dict(
   level="exploration",
   text="(real) every text over a 9-symbol bidi alphabet (letters of both directions on two faces, digit, space, RLI/LRI/PDI) up to the tier's length, both default directions, itemised by the real Segmenter.Split, wrapped at every critical width with/without truncator (both truncator directions); (synth) the whole C02 enumeration of synthetic runs with arbitrary direction vectors. Each line's VisualIndex is compared with UAX#9 rule L2 on reference embedding levels; the trimmed glyph must be the visually last one.",
   note="Reference levels: unexported core of golang.org/x/text/unicode/bidi (port of the Unicode reference implementation) via go:linkname. Known finding: runs at level >= paragraph+2 (Output carries only the parity) — matched by mechanism (observed order == parity-only order), any other wrong order is a violation.",
   technique="bounded exhaustive enumeration of inputs against a reference implementation of rule L2 (E1)",
   design="1/C08", engine="E1 enum"),
 "C02": dict(
   level="exploration",
   text="All paragraphs up to the tier's length over a 9-symbol line-breaking alphabet x all run splits, direction vectors and cluster structures x all critical widths (and two widths beyond 26.6 fixed point) x policies, with truncation, trimming, spacing, iterator and driver axes crossed one at a time; every returned line is checked for coverage, glyph identity (unique ids), cluster integrity and advance = sum of glyph advances.",
   note=WRAP_NOTE, technique="bounded exhaustive enumeration of inputs and configurations against conservation laws (small-scope model checking, E1)",
   design="1/C02 + Appendix A", engine="E1 enum"),
 "C03": dict(
   level="exploration",
   text="Same enumeration as C02; every line end is compared with the permitted break set (UAX#14 opportunities, grapheme boundaries per policy, cluster starts), mandatory breaks, and the WhenNecessary 'word fits by itself' rule.",
   note=WRAP_NOTE, technique="bounded exhaustive enumeration of inputs and configurations against a reference break-set model (E1)",
   design="1/C03 + Appendix A", engine="E1 enum"),
 "C04": dict(
   level="exploration",
   text="Same enumeration as C02; independent reference measure (two readings of 'trailing at the line end') decides width bound, greedy maximality against the next permitted break, line count, truncator presence/range and the reduced width of the truncated line.",
   note=WRAP_NOTE, technique="bounded exhaustive enumeration of inputs and configurations against a reference measure (E1)",
   design="1/C04 + Appendix A", engine="E1 enum"),
 "C19": dict(
   level="exploration",
   text="Bounded-exhaustive enumeration of table lists (all length vectors over 0..9 for up to 4 tables, cyclic lengths covering every residue mod 4 for 5..40 tables, 4 byte patterns, 4 spare-capacity settings aliasing a shared backing array, 3 tag layouts) plus every corpus face rewritten; each output is decoded by an independent directory reader and by the library's loader.",
   note="Oracle is a 40-line sfnt reader + spec checksum written from the OpenType spec. Table-offset alignment and the n=0 header fields are reported, not judged.",
   technique="bounded exhaustive enumeration of inputs (small-scope model checking of a pure function against a reference decoder, E1)",
   design="1/C19", engine="E1 enum"),
 "C20": dict(
   level="exploration",
   text="Complete enumeration of finite domains: every code point through every lookup against a linear walk of the exported tables and two independent references (Go unicode, x/text norm); all Direction bytes; all language-table entries; all tag strings of length <= 4 over a 12-symbol alphabet. exhaustive:true without a bound for the code-point and Direction clauses.",
   note="Trusts Go's unicode tables and x/text norm (Unicode 15.0) as references; they agree with the library on every code point of the unchanged tree. harfbuzz-internal wrappers are not reached separately.",
   technique="exhaustive enumeration of the complete input domain (bounded model checking of pure functions, E1)",
   design="1/C20", engine="E1 enum"),
}

NOT_YET = "check not built yet in this session (planned in DESIGN.md section 1); no claim is made"

def main():
    checks = []
    for pid in ALL:
        c = CHECKS.get(pid)
        if not c: continue
        checks.append({
          "property_id": pid,
          "quick_cmd": "/verif/run.sh %s quick" % pid,
          "thorough_cmd": "/verif/run.sh %s thorough" % pid,
          "evidence_file": "/verif/evidence/%s.json" % pid,
          "replay_cmd_template": "/verif/run.sh %s quick --replay {path}" % pid,
          "engine": c["engine"],
          "level_claimed": {"category": c["level"], "text": c["text"], "design_ref": "DESIGN.md section " + c["design"]},
          "level_note": c["note"],
          "technique": c["technique"],
        })
    m = {
      "version": 1,
      "setup_cmd": "sh /verif/setup.sh",
      "hooks": {
        "guard": "verif",
        "enable": "go build -tags verif (done by /verif/run.sh for every check, module replace => /repo)",
        "baseline_off_cmd": "cd /repo && GOFLAGS=-mod=mod GOPROXY=off GOSUMDB=off GOTOOLCHAIN=local go test -vet=off -count=1 -timeout 25m ./...",
        "source_commits": HOOK_COMMITS,
        "add_only": True,
      },
      "engines": [
        {"name": "E1 enum", "path": "/verif/mc", "serves_properties": [p for p in ALL if CHECKS.get(p, {}).get("engine") == "E1 enum"], "kind_free_text": "bounded exhaustive input enumerator over quotient alphabets, sharded over journalled worker processes"},
        {"name": "E2 hist", "path": "/verif/mc", "serves_properties": [p for p in ALL if CHECKS.get(p, {}).get("engine") == "E2 hist"], "kind_free_text": "explicit-state BFS over operation histories on the real objects, state = canonical deep hash"},
        {"name": "E3 sched", "path": "/verif/mc", "serves_properties": [p for p in ALL if CHECKS.get(p, {}).get("engine") == "E3 sched"], "kind_free_text": "explicit-state explorer of thread interleavings at operation granularity on the real objects, with a deep-hash write monitor over the shared roots (fonts and every package-level variable) and a solo-run oracle; free-running -race pass as a sampling complement (the statement-level cooperative scheduler of the plan was not built, DESIGN.md 6.7)"},
        {"name": "E4 fault", "path": "/verif/mc", "serves_properties": [p for p in ALL if CHECKS.get(p, {}).get("engine") == "E4 fault"], "kind_free_text": "single-fault / crash-point enumerator over files"},
      ],
      "checks": checks,
      "notes": "All checks are built and run by /verif/run.sh <id> <tier>, which recompiles the harness against /repo's working tree with -tags verif. Known findings: /verif/known_findings.jsonl.",
      "not_applicable": [{"property_id": p, "reason": NA.get(p, NOT_YET)} for p in ALL if p not in CHECKS],
    }
    json.dump(m, open("/verif/MANIFEST.json", "w"), indent=1)
    print("wrote MANIFEST.json with", len(checks), "checks")

HOOK_COMMITS = ["1ac8438"]
NA = {}

if __name__ == "__main__":
    main()
