#!/bin/sh
# usage: seedverify.sh <dir with patch.diff + demo_test.go> <package dir relative to repo> <test name regexp>
# Confirms in a scratch worktree of /repo HEAD: suite passes with the change, demo fails with it, passes without.
export GOFLAGS=-mod=mod GOPROXY=off GOSUMDB=off GOTOOLCHAIN=local
d="$1"; pkg="$2"; re="$3"
wt=/var/tmp/verif-seedverify-$$
git -C /repo worktree add -q --detach $wt HEAD || exit 2
cd $wt
res=""
if git apply "$d/patch.diff" 2>/dev/null || git apply --3way "$d/patch.diff" 2>/dev/null || patch -p1 -s --fuzz=3 < "$d/patch.diff"; then
  git reset -q
  if go build ./... && go test -vet=off -count=1 -timeout 25m ./... > suite.log 2>&1; then res="suite_pass_with_change=yes"; else res="suite_pass_with_change=NO"; tail -5 suite.log; fi
  cp "$d/demo_test.go" "$pkg/zz_seed_demo_test.go"
  if go test -vet=off -count=1 -run "$re" ./$pkg/ > demo1.log 2>&1; then res="$res demo_fails_with_change=NO"; else res="$res demo_fails_with_change=yes"; fi
  git diff > /var/tmp/verif-seedverify-$$.diff
  git checkout -q -- .
  if go test -vet=off -count=1 -run "$re" ./$pkg/ > demo2.log 2>&1; then res="$res demo_passes_without=yes"; else res="$res demo_passes_without=NO"; tail -5 demo2.log; fi
  # keep the patch as it applies to the current HEAD
  cp /var/tmp/verif-seedverify-$$.diff "$d/patch.rebased.diff"; rm -f /var/tmp/verif-seedverify-$$.diff
else
  res="PATCH_DOES_NOT_APPLY"
fi
cd /; git -C /repo worktree remove --force $wt
echo "$res"
