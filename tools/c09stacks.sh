#!/bin/sh
# prints, for every C09 panic replay, the case and the repository frames of the panic
cd /verif
export GOFLAGS=-mod=mod GOPROXY=off GOSUMDB=off GOTOOLCHAIN=local
go build -tags verif -o bin/check.dbg ./cmd/check || exit 2
for f in c09cases/C09-*.json; do
  grep -q '"key": "C09:panic' $f || continue
  echo "=== $(grep '"key"' $f) $(tr -d '\n ' < $f | grep -o '"case":.*')"
  VERIF_SHOW_STACK=1 ./bin/check.dbg C09 --tier quick --replay $f 2>&1 | grep -v "^WARNING\|^replay\|^VIOLATION" | head -${1:-8}
done
