#!/bin/sh
# usage: seedtest.sh <patch.diff> <check id> [tier]   — applies a seeded change to /repo, runs the check, undoes it.
patch="$1"; id="$2"; tier="${3:-quick}"
cd /repo || exit 2
if [ -n "$(git status --porcelain)" ]; then echo "/repo not clean"; exit 2; fi
if ! git apply "$patch" 2>/dev/null; then
  if ! git apply --3way "$patch" 2>/dev/null; then
    if ! patch -p1 -s --fuzz=3 < "$patch"; then echo "PATCH DOES NOT APPLY"; git reset -q --hard HEAD; git clean -fdq; exit 3; fi
  fi
  git reset -q
fi
/verif/run.sh "$id" "$tier" > /var/tmp/verif-seedtest.$$.log 2>&1; rc=$?
grep -v "^WARNING" /var/tmp/verif-seedtest.$$.log | grep "violation key\|tier=\|BUILD\|KNOWN" | head -8
rm -f /var/tmp/verif-seedtest.$$.log
git reset -q --hard HEAD; git clean -fdq -e '*.orig' ; find . -name '*.orig' -o -name '*.rej' | xargs rm -f
echo "exit=$rc"
exit $rc
