#!/bin/sh
# usage: runalt.sh <tree> <property id> [quick|thorough]
# Triage helper (not registered in MANIFEST.json): runs one check against another checkout of go-text/typesetting
# (a scratch worktree holding a seeded change) instead of /repo, through an alternative go.mod. Evidence and replay
# files go to a scratch directory so that /verif/evidence keeps describing /repo.
export GOFLAGS=-mod=mod GOPROXY=off GOSUMDB=off GOTOOLCHAIN=local
tree="$1"; id="$2"; tier="${3:-quick}"
cd /verif || exit 2
mkdir -p bin
mod="/var/tmp/verif-alt.$$.mod"
sed "s#=> /repo#=> $tree#" go.mod > "$mod"; cp go.sum "/var/tmp/verif-alt.$$.sum"
out="bin/check-alt.$$"
tags=verif
case "$id" in C05|C10) tags="verif hb" ;; esac
overlay=""; ov=""
trap 'rm -f "$out" "bin/check-alt-race.$$" "$mod" "/var/tmp/verif-alt.$$.sum" bin/build-alt.$$.log; [ -n "$ov" ] && rm -rf "$ov"' EXIT
if [ "$id" = "C17" ]; then
  ov="/var/tmp/verif-c17-ov-alt.$$"
  tags="verif c17"
  go run -modfile "$mod" ./tools/c17gen "$tree" "$ov" >bin/build-alt.$$.log 2>&1 || { cat bin/build-alt.$$.log; echo "BUILD FAILED (generator)"; exit 2; }
  overlay="-overlay $ov/overlay.json"
  if go build -modfile "$mod" -race -tags "$tags" $overlay -o "bin/check-alt-race.$$" ./cmd/check 2>>bin/build-alt.$$.log; then
    export VERIF_C17_RACE_BIN="/verif/bin/check-alt-race.$$ c17race"
  fi
fi
if ! go build -modfile "$mod" -tags "$tags" $overlay -o "$out" ./cmd/check 2>bin/build-alt.$$.log; then
  cat bin/build-alt.$$.log; echo "BUILD FAILED for $id"; exit 2
fi
export VERIF_OUT_DIR="/var/tmp/verif-alt-out.$$"; mkdir -p "$VERIF_OUT_DIR"
"$out" "$id" --tier "$tier"; rc=$?
rm -rf "$VERIF_OUT_DIR"
exit $rc
