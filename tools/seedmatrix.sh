#!/bin/sh
# re-runs every stored seeded change against the current /repo tree: applies it, runs the quick tier of its
# property's check, undoes it; prints one line per change. usage: seedmatrix.sh [id-prefix]
cd /verif
for d in /verif/seeded/${1:-C}*; do
  id=$(basename $d); prop=${id%%-*}
  if ! git -C /repo apply --check $d/patch.diff 2>/dev/null; then
    if git -C /repo apply --3way --check $d/patch.diff 2>/dev/null; then how="3way"; else echo "$id PATCH-DOES-NOT-APPLY"; continue; fi
  fi
  out=$(tools/seedtest.sh $d/patch.diff $prop quick 2>&1)
  keys=$(echo "$out" | grep "^violation key=" | sed 's/^violation key=\([^ ]*\).*/\1/' | cut -c1-70 | sort -u | head -3 | tr '\n' ' ')
  ex=$(echo "$out" | grep -o "exit=[0-9]*" | tail -1)
  echo "$id $ex $keys"
  git -C /repo status --short | grep -q . && { echo "REPO DIRTY after $id"; git -C /repo reset -q --hard HEAD; }
done
