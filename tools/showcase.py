#!/usr/bin/env python3
import json,sys
for p in sys.argv[1:]:
    v=json.load(open(p)); c=v['case']
    if 'text' in c and isinstance(c['text'],list):
        c=dict(c); c['text']=''.join(chr(x) for x in c['text']).encode('unicode_escape').decode()
        if 'runs' in c: c['runs']=[('LRTB'[r['dir']], [(x['r'],x['g']) for x in r['cl']]) for r in c['runs']]
    print(p.split('/')[-1], v['key']); print('  ',v['msg'][:300]); print('  ',json.dumps(c))
