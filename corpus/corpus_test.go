package corpus
import "testing"
func TestCount(t *testing.T) {
	n, faces, small := 0, 0, 0
	for i := range Files() { f := &Files()[i]; n++; faces += len(Fonts(f)); if len(f.Data) <= 8192 { small++ } }
	t.Logf("files=%d faces=%d small=%d", n, faces, small)
}
