// Package corpus enumerates the font files shipped with the typesetting-utils dependency.
package corpus

import (
	"bytes"
	"io/fs"
	"sort"
	"strings"

	hbdata "github.com/go-text/typesetting-utils/harfbuzz"
	otdata "github.com/go-text/typesetting-utils/opentype"
	"github.com/go-text/typesetting/font"
	ot "github.com/go-text/typesetting/font/opentype"
	"github.com/go-text/typesetting/font/opentype/tables"
)

type File struct {
	Name string // "ot/common/Roboto-Regular.ttf" or "hb/fonts/xxx.ttf"
	Data []byte
}

var fontExt = map[string]bool{".ttf": true, ".otf": true, ".ttc": true, ".otc": true, ".woff": true, ".dfont": true, ".otb": true, ".fon": false}

func walk(prefix string, fsys fs.FS, out *[]File) {
	fs.WalkDir(fsys, ".", func(p string, d fs.DirEntry, err error) error {
		if err != nil || d.IsDir() {
			return nil
		}
		i := strings.LastIndexByte(p, '.')
		if i < 0 || !fontExt[strings.ToLower(p[i:])] {
			return nil
		}
		b, err := fs.ReadFile(fsys, p)
		if err != nil {
			return nil
		}
		*out = append(*out, File{Name: prefix + "/" + p, Data: b})
		return nil
	})
}

var all []File

// Files returns every font-like file of the corpus, sorted by size then name (simplest first).
func Files() []File {
	if all != nil {
		return all
	}
	var out []File
	walk("ot", otdata.Files, &out)
	walk("hb", hbdata.Files, &out)
	sort.Slice(out, func(i, j int) bool {
		if len(out[i].Data) != len(out[j].Data) {
			return len(out[i].Data) < len(out[j].Data)
		}
		return out[i].Name < out[j].Name
	})
	all = out
	return out
}

func Get(name string) *File {
	for i, f := range Files() {
		if f.Name == name {
			return &Files()[i]
		}
	}
	return nil
}

// Loaders opens a file with the library (nil on error or panic).
func Loaders(f *File) (lds []*ot.Loader) {
	defer func() {
		if recover() != nil {
			lds = nil
		}
	}()
	lds, err := ot.NewLoaders(bytes.NewReader(f.Data))
	if err != nil {
		return nil
	}
	return lds
}

// Fonts parses every face of a file (faces that fail to parse are skipped).
func Fonts(f *File) (out []*font.Font) {
	for _, ld := range Loaders(f) {
		func() {
			defer func() { recover() }()
			ft, err := font.NewFont(ld)
			if err == nil {
				out = append(out, ft)
			}
		}()
	}
	return out
}

// Axes returns the variation axes of every face of a file (nil for static fonts).
func Axes(ld *ot.Loader) []tables.VariationAxisRecord {
	raw, err := ld.RawTable(ot.MustNewTag("fvar"))
	if err != nil {
		return nil
	}
	fv, _, err := tables.ParseFvar(raw)
	if err != nil {
		return nil
	}
	return fv.FvarRecords.Axis
}
