#!/bin/sh
# Offline setup: warm the Go build cache for the check binary (hooks on). Nothing is fetched.
export GOFLAGS=-mod=mod GOPROXY=off GOSUMDB=off GOTOOLCHAIN=local
cd /verif || exit 2
mkdir -p bin evidence replays
go build -tags verif -o bin/check.setup ./cmd/check || exit 2
# the hb variant (C05, C10) links the system libharfbuzz through cgo: fail loudly here if it cannot be built
go build -tags "verif hb" -o bin/check.setup ./cmd/check || { echo "cannot build the libharfbuzz variant (cgo, -l:libharfbuzz.so.0)"; exit 2; }
# the C17 variant: generated list of package-level variables (overlay, nothing written under /repo), plain and -race builds
ov=/var/tmp/verif-c17-ov.setup
go run ./tools/c17gen /repo "$ov" || { rm -rf "$ov"; echo "cannot generate the C17 overlay"; exit 2; }
go build -tags "verif c17" -overlay "$ov/overlay.json" -o bin/check.setup ./cmd/check || { rm -rf "$ov"; echo "cannot build the C17 variant"; exit 2; }
go build -race -tags "verif c17" -overlay "$ov/overlay.json" -o bin/check.setup ./cmd/check || echo "warning: no -race build (the free-running pass of C17 will be skipped and reported as such)"
rm -rf "$ov" bin/check.setup
echo "setup ok"
