#!/bin/sh
# Offline setup: warm the Go build cache for the check binary (hooks on). Nothing is fetched.
export GOFLAGS=-mod=mod GOPROXY=off GOSUMDB=off GOTOOLCHAIN=local
cd /verif || exit 2
mkdir -p bin evidence replays
go build -tags verif -o bin/check.setup ./cmd/check || exit 2
# the hb variant (C05, C10) links the system libharfbuzz through cgo: fail loudly here if it cannot be built
go build -tags "verif hb" -o bin/check.setup ./cmd/check || { echo "cannot build the libharfbuzz variant (cgo, -l:libharfbuzz.so.0)"; exit 2; }
rm -f bin/check.setup
echo "setup ok"
