#!/bin/sh
# Offline setup: warm the Go build cache for the check binary (hooks on). Nothing is fetched.
export GOFLAGS=-mod=mod GOPROXY=off GOSUMDB=off GOTOOLCHAIN=local
cd /verif || exit 2
mkdir -p bin evidence replays
go build -tags verif -o bin/check.setup ./cmd/check || exit 2
rm -f bin/check.setup
echo "setup ok"
