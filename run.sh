#!/bin/sh
# usage: run.sh <property id> [quick|thorough] [extra args]
# Rebuilds the check binary from /repo's current working tree (hooks on) and runs one check.
export GOFLAGS=-mod=mod GOPROXY=off GOSUMDB=off GOTOOLCHAIN=local
cd /verif || exit 2
id="$1"; tier="${2:-${VERIF_TIER:-quick}}"
[ $# -ge 1 ] && shift; [ $# -ge 1 ] && shift
mkdir -p bin
out="bin/check.$$"
tags=verif
case "$id" in C05|C10) tags="verif hb" ;; esac   # the hb variant links libharfbuzz through cgo
overlay=""
if [ "$id" = "C17" ]; then
  # C17 needs the addresses of every package-level variable of the repository: a generated file per package,
  # added to the build through an overlay (nothing is written under /repo), and a second -race build for the free-running pass
  ov="/var/tmp/verif-c17-ov.$$"
  tags="verif c17"
  if ! go run ./tools/c17gen /repo "$ov" >bin/build.$$.log 2>&1; then cat bin/build.$$.log; rm -rf "$ov" bin/build.$$.log; echo "BUILD FAILED for $id (generator)"; exit 2; fi
  overlay="-overlay $ov/overlay.json"
  if go build -race -tags "$tags" $overlay -o "bin/check-race.$$" ./cmd/check 2>>bin/build.$$.log; then
    export VERIF_C17_RACE_BIN="/verif/bin/check-race.$$ c17race"
  fi
fi
if ! go build -tags "$tags" $overlay -o "$out" ./cmd/check 2>bin/build.$$.log; then
  cat bin/build.$$.log; rm -f bin/build.$$.log "$out" "bin/check-race.$$"; [ -n "$ov" ] && rm -rf "$ov"
  echo "BUILD FAILED for $id (the tree under /repo does not compile with the harness)"; exit 2
fi
rm -f bin/build.$$.log
trap 'rm -f "$out" "bin/check-race.$$"; [ -n "$ov" ] && rm -rf "$ov"' EXIT
"$out" "$id" --tier "$tier" "$@"
