#!/bin/sh
# usage: run.sh <property id> [quick|thorough] [extra args]
# Rebuilds the check binary from /repo's current working tree (hooks on) and runs one check.
export GOFLAGS=-mod=mod GOPROXY=off GOSUMDB=off GOTOOLCHAIN=local
cd /verif || exit 2
id="$1"; tier="${2:-${VERIF_TIER:-quick}}"
[ $# -ge 1 ] && shift; [ $# -ge 1 ] && shift
mkdir -p bin
out="bin/check.$$"
tags=verif
case "$id" in C05|C10) tags="verif hb" ;; esac   # the hb variant links libharfbuzz through cgo
if ! go build -tags "$tags" -o "$out" ./cmd/check 2>bin/build.$$.log; then
  cat bin/build.$$.log; rm -f bin/build.$$.log "$out"
  echo "BUILD FAILED for $id (the tree under /repo does not compile with the harness)"; exit 2
fi
rm -f bin/build.$$.log
trap 'rm -f "$out"' EXIT
"$out" "$id" --tier "$tier" "$@"
